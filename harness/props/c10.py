"""
C10 — name-keyed flow access equals positional access, whatever the lookup history.

Adapter for thermosteam/indexer.py (ChemicalIndexer / MaterialIndexer key resolution and data
access), thermosteam/_chemicals.py (CompiledChemicals name table, aliases, groups, the 100-key
memo), thermosteam/utils/cache.py (trim_cache) and thermosteam/_phase.py (PhaseIndexer);
generator of lookup histories long enough to fill and evict both memo dictionaries; and the
property oracle evaluated on the real objects only:

  * `indexer[key]` against `indexer.data.to_array()` at positions derived INDEPENDENTLY of the code under
    test (ChemSet.table: from the chemicals' own IDs, CAS numbers and name sets and the user's definitions);
  * after `indexer[key] = data`: entries outside those positions untouched (frame), entries at
    them equal to what was written (a scalar written to a group distributed by its composition);
  * the same key on the same data gives the same answer whatever happened in between, and a
    valid key never raises;
  * after compilation every accepted name has one position and all accepted names of a chemical
    the same one.

The Lean model is lean/ThermoVerif/Model/{Chemicals,Indexer,IndexCache}.lean.
"""
from __future__ import annotations
import hashlib, itertools, traceback, warnings
from fractions import Fraction
from urllib.parse import quote, unquote
from harness.core import Case, ImplResult, frac

PID = 'C10'
LEAN_MODULES = ['ThermoVerif.Props.C10']
RULE = ('histories over real CompiledChemicals (1-8 bundled chemicals incl. isomers that share a formula, '
        'custom IDs and synthetic chemicals with colliding alias sets), user aliases and groups, single- and '
        'multi-phase molar-flow indexers; key forms: ID/alias/CAS, tuple and list, group, nested, ellipsis, '
        'phase, (phase, key), (..., key), malformed keys incl. sequences nested too deeply (<=15%); reads and writes also '
        'through by_mass() views and SplitIndexers, name-keyed arrays (chemicals.array / split), wt=True groups, too-short '
        'data on nested keys, set_alias with a group / attribute name as ID; cross-package copy_like / mix_from also '
        'between multi-phase indexers (index_overlap together with phase growth); "churn" cases make >600 distinct keys on one '
        'MaterialIndexer memo and >100 on the chemicals memo so both eviction paths run, with cross-package '
        'copy_like/mix_from in between; "grow" cases make a MaterialIndexer\'s phase set grow in place (mix_from / copy_like '
        'from a source with a phase it lacks) with phase keys looked up before and after and sibling indexers of the old '
        'phase tuple; groups with IDs out of chemical order and non-uniform compositions receive scalars; '
        'dyadic data (exact comparison). A case is non-trivial when at least one '
        'lookup succeeded on non-zero data; distinct = distinct op sequences')
ASSUMPTIONS = [
    'flow data are compared through to_array() (dense image); the sparse dictionary is the subject of C09; in the Lean '
    'model the data are dense rows, so "a resolved key reads these positions" is true by definition there: the real '
    'sparse-dictionary read paths (get_sparse_chemical_data kinds 0-3, the sum_across_phases branches) are decided by '
    'correspondence + oracle, not by proof',
    'expected positions come from ChemSet.table (independent of _compile / set_alias / define_group); only the accept/reject '
    'decision of set_alias / define_group is taken from the code (and compared with the model on the same line)',
    'value forms written: Python scalars, lists, ndarrays (odd op index), 2-d lists (one row per phase) for (..., key) and '
    '(..., ...), and SparseVector rows of indexers of the same chemicals object (handed to the model as their entries); an '
    'indexer\'s own row only for resets of that row, and not through its own mass view unless GEN_ALIASED_MASS_VALUE '
    '(fixes_proposed/C10-6); lists of names are also handed over as NumPy arrays (every third op)',
    'eviction order and the limits 100 / 500 are unobservable by the property (cache_transparent) and therefore by this check',
    'values and group compositions are dyadic with power-of-two composition sums, so all arithmetic is exact in binary64',
    'a sequence nested at depth >= 3 inside a key is passed to the model as "hashable" / "contains a list" only '
    '(nothing else about it can influence the outcome: it never resolves, so it is never memoised)',
    'mass views and wt=True compositions involve MW (inexact in binary64): an indexer whose data went through such an '
    'operation (mass write, scalar through a wt=True group, transfer or SparseVector value from such an indexer) is compared '
    'with relative tolerance 1e-9 from then on (answers marked ~), and so is every mass read; all other indexers stay exact',
    'not generated: set_alias(group name, another group name) (depends on which names share one list object); '
    'define_group with the name of a chemical or attribute unless GEN_GROUP_CLOBBER (fixes_proposed/C10-5); '
    'for (..., key) writes only scalars and 1-d data of the matching length; vectors longer than the row; '
    'repeated labels in the phases given to MaterialIndexer.blank',
    'modelled: ChemicalMolarFlowIndexer, MolarFlowIndexer, their by_mass() views (= stream.imass), SplitIndexer, '
    'chemicals.array/kwarray/split/kwsplit/iarray/ikwarray/isplit (list and dict forms); NOT modelled: '
    'volumetric views (need V(T, P) models), Chemical objects as keys, 2-d data on nested (..., key) writes, a single-phase receiver copy_like-ing a multi-phase source, nested vectors as SplitIndexer data',
    'the order of index_overlap\'s CAS tuple (insertion order of the sparse dict) is modelled as ascending '
    'position: by cache_transparent it cannot influence any result',
    'the model is written to the FIXED behaviour of fixes_proposed/C10-1..C10-4 (trim_cache, index_overlap kind, '
    '[phase, ...] keys, memo reset on set_alias/define_group)',
]
TRUSTED = ['Lean 4.33 kernel', 'correspondence harness harness/props/c10.py + Driver/C10.lean',
           'generator reach (see histogram)', 'binary64 arithmetic exact on the dyadic alphabet']
EXHAUSTIVE = {'quick': False, 'thorough': False}

# Generator switches: histories that exercise the defects of fixes_proposed/C10-3 and C10-4.
# Set one to False to stop generating that input class (e.g. when the defect is kept as a known finding).
GEN_PHASE_ELLIPSIS = True        # keys ('l', ...) and (..., ...)                       (C10-3)
GEN_REDEFINE_GROUPS = True       # define_group on an existing group name after lookups (C10-4)
GEN_PHASE_LETTER_ALIAS = True    # set_alias(ID, 'l') after 'l' was looked up as a phase (C10-4)
GEN_ALIASED_MASS_VALUE = True   # imass[...] = (the same stream's) mol  (fixes_proposed/C10-6); enable once it is committed
GEN_GROUP_CLOBBER = True        # define_group with the name of a chemical or an attribute (C10-5); enable once C10-5 is committed

tmo = None
ind = None
np = None

POOL = ['Water', 'Ethanol', 'Methanol', 'Glycerol', 'Propanol', 'Octane', 'Butanol', 'AceticAcid', 'CO2', 'O2', 'N2',
        'DimethylEther', 'Isopropanol', 'Isobutanol', 'DiethylEther', 'MethylFormate', 'Acetone', 'S', 'NH3', 'H2']
RESERVED = ['tuple', 'size', 'IDs', 'CASs', 'MW', 'Hf', 'LHV', 'HHV', '_index', '_group_wt_compositions',
            '_group_mol_compositions', '_index_cache', 'vle_chemicals', 'lle_chemicals', 'heavy_chemicals',
            'light_chemicals', '_vle_index', '_lle_index', '_heavy_solutes', '_heavy_indices', '_light_indices']
ISOMERS = [('Ethanol', 'DimethylEther'), ('Propanol', 'Isopropanol'), ('Butanol', 'Isobutanol'), ('Butanol', 'DiethylEther'),
           ('Isobutanol', 'DiethylEther'), ('AceticAcid', 'MethylFormate')]
VALID_PHASES = 'slgSL'
_PLANNED = {}


def setup():
    global tmo, ind, np
    import numpy, thermosteam
    from thermosteam import indexer
    tmo, ind, np = thermosteam, indexer, numpy
    warnings.simplefilter('ignore')


def extra_evidence(executed, model_outs):
    return {'cases_planned': _PLANNED.get('cases'), 'cases_run': len(executed)}


def budget(tier):
    b = {'quick': dict(seconds=60, cases=400, shrink_s=20, search_s=0),
         'thorough': dict(seconds=420, cases=8000, shrink_s=60, search_s=0)}[tier]
    _PLANNED['cases'] = b['cases']
    return b


# --------------------------------------------------------------------------
# names, keys, data on the wire
# --------------------------------------------------------------------------

def enc(name):
    return quote(name, safe='')


def dec(tok):
    return unquote(tok)


def all_names(c):
    iu = c.iupac_name
    if not iu: iu = ()
    elif isinstance(iu, str): iu = (iu,)
    return sorted(x for x in {*iu, *c.aliases, c.common_name, c.formula} if x)


def split_top(s):
    if s == '': return []
    out, cur, d = [], [], 0
    for ch in s:
        if ch == ',' and d == 0:
            out.append(''.join(cur)); cur = []
        else:
            if ch in '([': d += 1
            elif ch in ')]': d -= 1
            cur.append(ch)
    out.append(''.join(cur))
    return out


def parse_key(tok, depth=0):
    """protocol key -> Python key object"""
    if tok == '*': return Ellipsis
    if tok[:1] == '(' and tok[-1:] == ')':
        return tuple(parse_key(x, depth + 1) for x in split_top(tok[1:-1]))
    if tok[:1] == '[' and tok[-1:] == ']':
        return [parse_key(x, depth + 1) for x in split_top(tok[1:-1])]
    return dec(tok)


def show_key(key):
    if key is Ellipsis: return '*'
    if isinstance(key, tuple): return '(' + ','.join(show_key(k) for k in key) + ')'
    if isinstance(key, list): return '[' + ','.join(show_key(k) for k in key) + ']'
    return enc(key)


def parse_data(tok):
    if tok.startswith('s:'): return float(Fraction(tok[2:]))
    if tok.startswith('v:'):
        return [float(Fraction(x)) for x in tok[2:].split(',')] if tok[2:] else []
    if tok.startswith('m:'):
        return [[float(Fraction(x)) for x in r.split(',')] if r else [] for r in tok[2:].split(';')]
    raise ValueError(tok)


def show_data(d):
    if isinstance(d, list) and d and isinstance(d[0], list): return 'm:' + ';'.join(','.join(frac(x) for x in r) for r in d)
    if isinstance(d, list): return 'v:' + ','.join(frac(x) for x in d)
    return 's:' + frac(d)


def canon(v):
    if hasattr(v, 'to_array'): v = v.to_array()
    a = np.asarray(v)
    if a.dtype == object:
        if a.ndim == 1 and any(isinstance(x, np.ndarray) for x in a):      # SplitIndexer, nested key
            return 'n:' + ';'.join(('[' + ','.join(frac(float(y)) for y in x) + ']') if isinstance(x, np.ndarray)
                                   else frac(float(x)) for x in a)
        if a.ndim == 2:       # NumPy stacks equally long member vectors into a 2-d object array
            return 'n:' + ';'.join('[' + ','.join(frac(float(y)) for y in x) + ']' for x in a)
        a = a.astype(float)
    if a.ndim == 0: return 's:' + frac(float(a))
    if a.ndim == 1: return 'v:' + ','.join(frac(float(x)) for x in a)
    return 'm:' + ';'.join(','.join(frac(float(x)) for x in r) for r in a)


def dense(ix):
    a = ix.data.to_array()
    return [list(map(float, a))] if a.ndim == 1 else [list(map(float, r)) for r in a]


def show_dense(rows):
    return 'm:' + ';'.join(','.join(frac(x) for x in r) for r in rows)


def _close_tok(a, b, rtol=1e-9, atol=1e-12):
    if a == b: return True
    if ':' not in a or ':' not in b or a[:2] != b[:2]: return False
    ra, rb = a[2:].split(';'), b[2:].split(';')
    if len(ra) != len(rb): return False
    for x, y in zip(ra, rb):
        xs, ys = (x.split(',') if x else []), (y.split(',') if y else [])
        if len(xs) != len(ys): return False
        for u, v in zip(xs, ys):
            try: fu, fv = float(Fraction(u)), float(Fraction(v))
            except Exception: return False
            if abs(fu - fv) > atol + rtol * max(abs(fu), abs(fv)): return False
    return True


def close_line(a, b):
    """answers equal up to rounding (used only where the implementation's arithmetic is inexact)"""
    ta, tb = a.split(' '), b.split(' ')
    return len(ta) == len(tb) and all(_close_tok(x, y) for x, y in zip(ta, tb))


def compare(impl_line, model_line):
    if impl_line.startswith('~'): return close_line(impl_line[1:], model_line)
    return impl_line == model_line


def as_array_key(key, i):
    """every third operation a list of names is handed over as a NumPy array of names (also one level down)"""
    if i % 3: return key
    def conv(k):
        return np.array(k) if (isinstance(k, list) and k and all(isinstance(x, str) for x in k)) else k
    if isinstance(key, list) and key and all(isinstance(x, str) for x in key): return np.array(key)
    if isinstance(key, tuple): return tuple(conv(k) for k in key)
    return key


def has_list(key):
    if isinstance(key, list): return True
    if isinstance(key, tuple): return any(has_list(k) for k in key)
    return False


def model_key(key, depth=0):
    """the key as the model sees it: a sequence at depth >= 3 is summarised by its hashability"""
    if key is Ellipsis: return '*'
    if isinstance(key, (tuple, list)):
        if depth >= 2: return '@u' if has_list(key) else '@h'
        inner = ','.join(model_key(k, depth + 1) for k in key)
        return ('(' + inner + ')') if isinstance(key, tuple) else ('[' + inner + ']')
    return enc(key)


ERR = {'UndefinedChemicalAlias', 'UndefinedPhase', 'TypeError', 'IndexError', 'ValueError', 'KeyError', 'RuntimeError'}


def err_name(e):
    n = type(e).__name__
    return n if n in ERR else ('TypeError' if n == 'AttributeError' else n)


def err_site(e):
    tb = traceback.extract_tb(e.__traceback__)
    for fr in reversed(tb):
        if 'thermosteam' in fr.filename: return fr.name
    return tb[-1].name if tb else '?'


# --------------------------------------------------------------------------
# the real objects of one case
# --------------------------------------------------------------------------

class EndCase(Exception):
    """the real objects cannot be driven any further in a meaningful way: the case ends here, silently"""


class ChemSet:
    def __init__(self, recipe):
        self.recipe = recipe           # list of recipe tokens
        self.defs = []                 # successful ('alias', id, alias) / ('group', name, ids, comp)
        self.known = {}                # chemical name -> position, as first observed
        self.shared = set()            # names claimed by two chemicals at compilation (must stay undefined)
        self.real = None
        self.specs = None              # [(ID, CAS, names)]
        self._fresh = None
        self._table = None

    @staticmethod
    def make_chemical(tok):
        if '~' in tok:                 # synthetic: ID~CAS~alias,alias
            ID, cas, names = tok.split('~')
            names = [dec(x) for x in names.split(',')] if names else []
            return tmo.Chemical(dec(ID), search_db=False, CAS=cas, MW=1., aliases=names)
        if '=' in tok:                 # bundled chemical under a custom ID
            ID, src = tok.split('=')
            return tmo.Chemical(dec(ID), search_ID=src, cache=False)
        return tmo.Chemical(tok, cache=False)

    def build(self):
        chems = [self.make_chemical(t) for t in self.recipe]
        specs = [(c.ID, c.CAS, all_names(c), float(c.MW)) for c in chems]
        cc = tmo.Chemicals(chems)
        cc.compile(skip_checks=True)
        return cc, specs

    def table(self):
        """name -> position (int) or positions (list), derived INDEPENDENTLY of the code under test from the chemicals'
        own identifiers and name sets and from the user's definitions: ID and CAS of chemical k -> k; a name in the
        name set of exactly one chemical -> that chemical; a name claimed by two -> undefined; an accepted alias ->
        the position of its ID; a group -> the positions of its IDs in the user's order.  (Only the accept / reject
        decision of set_alias / define_group is taken from the code; it is compared with the model separately.)"""
        if self._table is None:
            tab = {}
            for k, (ID, cas, names, mw) in enumerate(self.specs):
                tab[cas] = k
            for k, (ID, cas, names, mw) in enumerate(self.specs):
                tab[ID] = k
            for k, (ID, cas, names, mw) in enumerate(self.specs):
                for n in names:
                    if n and n not in tab and sum(1 for s2 in self.specs if n in s2[2]) == 1: tab[n] = k
            for d in self.defs:
                if d[0] == 'alias':
                    if d[2] not in tab and d[1] in tab: tab[d[2]] = tab[d[1]]
                elif d[0] == 'alias-failed':
                    # set_alias(<group name>, new) enters `new` as a second name of the group before it raises
                    if isinstance(tab.get(d[1]), list) and d[2] not in tab and d[2] not in RESERVED: tab[d[2]] = tab[d[1]]
                else:
                    if all(i in tab for i in d[2]): tab[d[1]] = [tab[i] for i in d[2]]
            self._table = tab
        return self._table

    def mws(self):
        return [Fraction(s[3]) for s in self.specs]

    def group_ids(self, name):
        """member IDs of a group in the order the user gave them (last definition)"""
        for d in reversed(self.defs):
            if d[0] == 'group' and d[1] == name: return list(d[2])
        return None

    def group_comp(self, name, basis='mol'):
        """normalised composition of a group from the user's definition, as exact fractions, on a molar or weight
        basis (wt=False: mol = comp, wt = comp*MW; wt=True: wt = comp, mol = comp/MW)"""
        for d in reversed(self.defs):
            if d[0] == 'group' and d[1] == name:
                ids, comp, wt = d[2], d[3], d[4]
                comp = [Fraction(1)] * len(ids) if comp is None else [Fraction(x) for x in comp]
                if (basis == 'wt') != bool(wt):
                    tab, allmw = self.table(), self.mws()
                    mws = [allmw[tab[i]] for i in ids]
                    comp = [c * m for c, m in zip(comp, mws)] if basis == 'wt' else [c / m for c, m in zip(comp, mws)]
                tot = sum(comp)
                return [x / tot for x in comp]
        return None


class Universe:
    def __init__(self):
        self.sets = []
        self.ixs = []          # (indexer, set number)
        self.version = []      # data version per indexer
        self.seen = {}         # (ix, key repr, version, defs version) -> canonical answer
        self.tags = set()
        self.maxlen = {}
        self.inexact = set()   # indexers whose data have been through inexact arithmetic (mass views, wt=True compositions)

    # ---- oracle helpers --------------------------------------------------
    def pos_of(self, cs, name):
        """position (int) or positions (list) of a name by the independent table; None if undefined"""
        if not isinstance(name, str): return None
        p = cs.table().get(name)
        return list(p) if isinstance(p, list) else p

    def members(self, cs, name):
        """positions of the members of a group, in the user's definition order (aligned with group_comp)"""
        return [self.pos_of(cs, i) for i in cs.group_ids(name)]

    def chem_form(self, cs, key):
        """(form, plan) of a chemical-level key judged on the fresh object, or None if not a valid chemical key.
        plan: ('all',) | ('one', i) | ('grp', name, [i]) | ('seq', [('one', i) | ('grp', name, [i])])"""
        if key is Ellipsis: return 'ellipsis', ('all',)
        if isinstance(key, str):
            p = self.pos_of(cs, key)
            if p is None: return None
            return ('id', ('one', p)) if isinstance(p, int) else ('group', ('grp', key, p))
        if isinstance(key, (tuple, list)):
            plan = []
            for k in key:
                p = self.pos_of(cs, k)
                if p is None: return None
                plan.append(('one', p) if isinstance(p, int) else ('grp', k, p))
            return ('nested' if any(x[0] == 'grp' for x in plan) else 'tuple'), ('seq', plan)
        return None

    @staticmethod
    def read_plan_split(row, plan):
        def vec(e): return '[' + ','.join(frac(row[i]) for i in e[2]) + ']'
        if plan[0] == 'all': return 'v:' + ','.join(frac(x) for x in row)
        if plan[0] == 'one': return 's:' + frac(row[plan[1]])
        if plan[0] == 'grp': return 'v:' + ','.join(frac(row[i]) for i in plan[2])
        if any(e[0] == 'grp' for e in plan[1]):
            return 'n:' + ';'.join(frac(row[e[1]]) if e[0] == 'one' else vec(e) for e in plan[1])
        return 'v:' + ','.join(frac(row[e[1]]) for e in plan[1])

    @staticmethod
    def read_plan(row, plan):
        def ent(e):
            return row[e[1]] if e[0] == 'one' else sum(Fraction(row[i]) for i in e[2])
        if plan[0] == 'all': return 'v:' + ','.join(frac(x) for x in row)
        if plan[0] in ('one', 'grp'): return 's:' + frac(ent(plan))
        return 'v:' + ','.join(frac(ent(e)) for e in plan[1])

    @staticmethod
    def phase_row(phases, label):
        if not isinstance(label, str) or len(label) != 1: return None
        if label in phases: return phases.index(label)
        sw = label.lower() if label.isupper() else label.upper()
        if sw in phases: return phases.index(sw)
        return None

    def expect_get(self, n, key, mass=False):
        """('form', expected canonical answer) from data + fresh positions, or None when the key is not valid"""
        ix, s = self.ixs[n]
        cs = self.sets[s]
        rows = dense(ix)
        if mass:
            mw = cs.mws()
            rows = [[Fraction(x) * m for x, m in zip(r, mw)] for r in rows]
        multi = isinstance(ix, ind.MaterialIndexer)
        if isinstance(ix, ind.SplitIndexer):
            f = self.chem_form(cs, key)
            if f is None: return None
            return 'split+' + f[0], self.read_plan_split(rows[0], f[1])
        if not multi:
            f = self.chem_form(cs, key)
            if f is None: return None
            return f[0], self.read_plan(rows[0], f[1])
        f = self.chem_form(cs, key)
        if f is not None:
            tot = [sum(Fraction(r[j]) for r in rows) for j in range(len(rows[0]))]
            return f[0], self.read_plan(tot, f[1])
        phases = ix.phases
        if isinstance(key, str):
            p = self.phase_row(phases, key)
            if p is None: return None
            return 'phase', 'v:' + ','.join(frac(x) for x in rows[p])
        if isinstance(key, (tuple, list)) and len(key) == 2:
            ph, ids = key
            if ph is Ellipsis: p = 'all'
            else:
                p = self.phase_row(phases, ph)
                if p is None: return None
            if self.pos_of(cs, ph) is not None: return None
            f = self.chem_form(cs, ids)
            if f is None: return None
            form, plan = f
            if p == 'all':
                if plan[0] == 'all': return 'allphase+ellipsis', show_dense(rows)
                parts = [self.read_plan(r, plan) for r in rows]
                if plan[0] in ('one', 'grp'): return 'allphase+' + form, 'v:' + ','.join(x[2:] for x in parts)
                return 'allphase+' + form, 'm:' + ';'.join(x[2:] for x in parts)
            return 'phase+' + form, self.read_plan(rows[p], plan)
        return None

    # ---- operations ------------------------------------------------------
    def note_cache(self, ix):
        """coverage tags only (never compared, never used by the oracle)"""
        try:
            if len(ix._chemicals._index_cache) >= 100: self.tags.add('chem-memo-full')
            c = getattr(ix, '_index_cache', None)
            if c is not None:
                k, m = id(c), len(c)
                if self.maxlen.get(k) == 500 and m == 401: self.tags.add('mat-memo-trimmed')
                self.maxlen[k] = m
        except Exception:
            pass

    def apply(self, line, i, failures):
        """returns (model_in line, impl answer)"""
        t = line.split(' ')
        op = t[0]

        def fail(sig, what):
            failures.append({'signature': sig, 'op_index': i, 'what': f'op {i} `{line[:120]}`: {what}'})

        if op == 'chems':
            cs = ChemSet(t[1:])
            try:
                cs.real, cs.specs = cs.build()
            except Exception as e:
                # the model still needs the real name sets: take them from chemicals built one by one
                chems = [cs.make_chemical(x) for x in t[1:]]
                cs.specs = [(c.ID, c.CAS, all_names(c), float(c.MW)) for c in chems]
                self.tags.add('chems:err')
                return self.chems_line(cs), 'err=' + err_name(e)     # no object: later ops do not count it
            self.sets.append(cs)
            # answer: position of every candidate name through the public `index`
            names = []
            for x in [s[0] for s in cs.specs] + [s[1] for s in cs.specs] + [n for s in cs.specs for n in s[2]]:
                if x and x not in names: names.append(x)
            ans = []
            table = {}
            for n in names:
                try:
                    p = cs.real.index(n); table[n] = p; ans.append(f'{enc(n)}={p}')
                except Exception:
                    ans.append(f'{enc(n)}=-')
            # property: one position per accepted name, the same for all accepted names of a chemical
            for k, (ID, cas, nm, _mw) in enumerate(cs.specs):
                if table.get(ID) != k or table.get(cas) != k:
                    fail('compile:id-position', f'ID/CAS of chemical {k} resolve to {table.get(ID)}/{table.get(cas)}')
                for n in nm:
                    claimed = [j for j, s2 in enumerate(cs.specs) if n in s2[2] or n == s2[0] or n == s2[1]]
                    if n in table and table[n] not in claimed:
                        fail('compile:name-wrong-chemical', f'name {n!r} resolves to {table[n]}, claimed by {claimed}')
                    if len(claimed) == 1 and n not in table:
                        fail('compile:name-dropped', f'name {n!r} of chemical {k} alone is not accepted')
                if sorted(cs.real.get_aliases(ID)) != sorted(x for x, p in table.items() if p == k):
                    fail('compile:aliases', f'get_aliases({ID!r}) differs from the names resolving to {k}')
            # a name claimed by two chemicals (isomers share a formula, ...) belongs to neither: it must be rejected
            reserved_names = {s2[0] for s2 in cs.specs} | {s2[1] for s2 in cs.specs}
            cs.shared = {n for s2 in cs.specs for n in s2[2]
                         if n not in reserved_names and sum(1 for s3 in cs.specs if n in s3[2]) >= 2}
            if cs.shared: self.tags.add('chems:shared-names')
            for n in sorted(cs.shared):
                if n in table:
                    fail('compile:shared-name-accepted',
                         f'name {n!r} is claimed by chemicals {[j for j, s3 in enumerate(cs.specs) if n in s3[2]]} '
                         f'but resolves to position {table[n]}; it should resolve to neither')
                    break
            cs.known = {n: p for n, p in table.items() if isinstance(p, int)}
            self.tags.add(f'chems:{len(cs.specs)}')
            return self.chems_line(cs), 'ok ' + ' '.join(ans)

        if op == 'alias':
            cs = self.sets[int(t[1])]
            ID, a = dec(t[2]), dec(t[3])
            try:
                cs.real.set_alias(ID, a)
            except Exception as e:
                self.tags.add('alias:err:' + err_name(e))
                # a failed call may have entered the name already (ID = a group name): the fresh object replays it
                cs.defs.append(('alias-failed', ID, a)); cs._table = None
                cs.shared.discard(a)
                self.names_stay(cs, fail, 'alias')
                return line, 'err=' + err_name(e)
            cs.defs.append(('alias', ID, a)); cs._table = None
            cs.shared.discard(a)
            self.tags.add('alias:ok')
            self.names_stay(cs, fail, 'alias')
            cs.known[a] = cs.real.index(a)
            if cs.real.index(a) != cs.real.index(ID):
                fail('alias:position', f'{a!r} resolves to {cs.real.index(a)}, {ID!r} to {cs.real.index(ID)}')
            return line, f'ok {cs.real.index(a)}'

        if op == 'group':
            cs = self.sets[int(t[1])]
            name = dec(t[2])
            ids = [dec(x) for x in t[3].split(',')] if t[3] != '-' else []
            comp = None if t[4] == '-' else [float(Fraction(x)) for x in t[4].split(',')]
            wt = len(t) > 5 and t[5] == 'wt'
            redefinition = any(d[0] == 'group' and d[1] == name for d in cs.defs)
            try:
                cs.real.define_group(name, ids, comp, wt)
            except Exception as e:
                self.tags.add('group:err')
                return line, 'err=' + err_name(e)
            cs.defs.append(('group', name, ids, comp, wt)); cs._table = None
            cs.shared.discard(name)
            self.tags.add(('group:redefined' if redefinition else 'group:ok') + (':wt' if wt else ''))
            self.names_stay(cs, fail, 'group')
            p = cs.real.get_index(name)
            mem = [cs.real.index(x) for x in ids]
            if sorted(p) != sorted(mem):
                fail('group:members', f'group {name!r} has positions {list(p)}, its IDs have positions {mem}')
            return line, 'ok ' + (','.join(str(x) for x in p) if p else '-')

        if op == 'cix':
            s = int(t[1])
            ph = t[2] if len(t) > 2 else 'l'
            self.ixs.append((ind.ChemicalMolarFlowIndexer.blank(ph, self.sets[s].real), s)); self.version.append(0)
            return line, 'ok'

        if op == 'reset':
            n, c2 = int(t[1]), int(t[2])
            ix, s = self.ixs[n]; old, new = self.sets[s], self.sets[c2]
            before, labels0 = dense(ix), self.labels(ix)
            tab = new.table()
            valid = all(old.specs[j][1] in tab for row in before for j, x in enumerate(row) if x)
            try:
                ix.reset_chemicals(new.real)
            except Exception as e:
                self.tags.add('reset:err:' + err_name(e))
                if valid: fail(f'reset:raises-{err_name(e)}@{err_site(e)}', f'all chemicals present, raised {type(e).__name__}: {str(e)[:80]}')
                raise EndCase()          # the indexer is left half-converted: the case ends here
            self.ixs[n] = (ix, c2); self.version[n] += 1
            if n in self.inexact: pass
            after = dense(ix)
            want = [[Fraction(0)] * len(new.specs) for _ in before]
            for p_, row in enumerate(before):
                for j, x in enumerate(row):
                    if x: want[p_][tab[old.specs[j][1]]] = Fraction(x)
            self.tags.add('reset:' + ('multi' if isinstance(ix, ind.MaterialIndexer) else 'single') + (':same-set' if s == c2 else ''))
            if [[Fraction(x) for x in r] for r in after] != want or self.labels(ix) != labels0:
                fail('reset:mismatch', f'data {after} after reset_chemicals; CAS by CAS it should be {[[float(x) for x in r] for r in want]}')
            return line, ('~' if n in self.inexact else '') + f'ok {"".join(self.labels(ix))} ' + show_dense(after)

        if op == 'copyix':
            n = int(t[1]); ix, s = self.ixs[n]
            new = ix.copy()
            self.ixs.append((new, s)); self.version.append(0)
            if n in self.inexact: self.inexact.add(len(self.ixs) - 1)
            self.tags.add('copyix')
            if dense(new) != dense(ix) or self.labels(new) != self.labels(ix):
                fail('copyix:mismatch', f'copy has {self.labels(new)} {dense(new)}, the original {self.labels(ix)} {dense(ix)}')
            return line, ('~' if n in self.inexact else '') + f'ok {"".join(self.labels(new))} ' + show_dense(dense(new))

        if op == 'query':
            # read-only looking queries of CompiledChemicals; for the model each is the (pure) `getindex` of the same names
            cs = self.sets[int(t[1])]
            kind = t[2]
            arg = parse_key(t[3]) if len(t) > 3 else None
            self.tags.add('query:' + kind)
            ids_ = [sp[0] for sp in cs.specs]
            def ent(v): return ((','.join(map(str, v)) or '-') if isinstance(v, (list, tuple)) else str(v))
            try:
                if kind == 'members':
                    mline = f'getindex {t[1]} {model_key(arg)}'
                    ans = 'ok ' + ent([ids_.index(i) for i in cs.real.chemical_group_members(arg)])
                elif kind == 'aliases':
                    mline = f'getindex {t[1]} {model_key(arg)}'
                    got = sorted(cs.real.get_aliases(arg))
                    k = cs.real.index(arg)
                    want = sorted(n_ for n_, p_ in cs.table().items() if p_ == self.pos_of(cs, arg) and not isinstance(p_, list))
                    if got != want: fail('query/aliases:mismatch', f'get_aliases({arg!r}) = {got}; the names of that chemical are {want}')
                    ans = 'ok ' + ent(k)
                elif kind == 'groups':
                    mline = f'getindex {t[1]} *'
                    got = set(cs.real.chemical_groups)
                    want = {d[1] for d in cs.defs if d[0] == 'group'}
                    if got != want: fail('query/groups:mismatch', f'chemical_groups = {sorted(got)}; defined: {sorted(want)}')
                    ans = 'ok'
                elif kind == 'contains':
                    mline = f'getindex {t[1]} {model_key(arg)}'
                    ans = ('ok ' + ent(cs.real.index(arg))) if (arg in cs.real) else 'err=UndefinedChemicalAlias'
                    if (arg in cs.real) != (self.pos_of(cs, arg) is not None):
                        fail('query/contains:mismatch', f'{arg!r} in chemicals is {arg in cs.real}; the table says {self.pos_of(cs, arg)}')
                else:   # available_indices: the positions of those names that are defined, in order; undefined names are skipped
                    defined = tuple(k_ for k_ in arg if self.pos_of(cs, k_) is not None)
                    mline = f'getindex {t[1]} {model_key(defined)}'
                    v = cs.real.available_indices(arg)
                    want = [self.pos_of(cs, k_) for k_ in defined]
                    if [list(x) if isinstance(x, list) else x for x in v] != want:
                        fail('query/available:mismatch', f'available_indices({t[3]}) = {v}; positions of the names: {want}')
                    ans = 'ok ' + (';'.join(ent(x) for x in v) if v else '-')
            except Exception as e:
                self.tags.add('query:err:' + err_name(e))
                fail(f'query/{kind}:raises-{err_name(e)}@{err_site(e)}', f'{kind}({t[3] if len(t) > 3 else ""}) raised {type(e).__name__}: {str(e)[:80]}')
                return f'getindex {t[1]} *', 'err=' + err_name(e)
            # a query changes nothing: every name keeps its position, every group its members IN THE ORDER OF ITS DEFINITION
            self.names_stay(cs, fail, 'query')
            for d in cs.defs:
                if d[0] == 'group' and cs.group_ids(d[1]) is not None:
                    want = self.members(cs, d[1])
                    try: got = list(cs.real.get_index(d[1]))
                    except Exception: got = None
                    if got != want:
                        fail('query:group-order-changed', f'after {kind}: group {d[1]!r} lists positions {got}; its definition says {want} '
                                                          f'(the composition is stored in that order)')
                        break
            return mline, ans

        if op == 'getindex':
            cs = self.sets[int(t[1])]
            key = parse_key(t[2])
            mline = f'getindex {t[1]} {model_key(key)}'
            valid = isinstance(key, (tuple, list)) and all(self.pos_of(cs, k) is not None for k in key)
            try:
                v = cs.real.get_index(key)
            except Exception as e:
                self.tags.add('getindex:err:' + err_name(e))
                if valid: fail(f'getindex:raises-{err_name(e)}@{err_site(e)}', f'all names defined, raised {type(e).__name__}')
                return mline, 'err=' + err_name(e)
            self.tags.add('getindex:ok')
            if isinstance(key, str): return mline, 'ok ' + ((','.join(map(str, v)) or '-') if isinstance(v, list) else str(v))
            if key is Ellipsis: return mline, 'ok'
            want = [self.pos_of(cs, k) for k in key]
            if not valid:
                fail('getindex:accepts-undefined', f'get_index({t[2]}) returned {v} although a name is undefined')
            elif [list(x) if isinstance(x, list) else x for x in v] != want:
                fail('getindex:mismatch', f'get_index({t[2]}) gave {v}; the positions of the names are {want}')
            return mline, 'ok ' + (';'.join((','.join(map(str, x)) or '-') if isinstance(x, list) else str(x) for x in v) if v else '-')

        if op in ('kcix', 'ksix', 'kmix'):
            cs = self.sets[int(t[1])]
            try:
                if op == 'kmix':
                    parts = [p_.split('=') for p_ in t[2].split('|')]
                    kw = {}
                    for pk, d in parts:
                        ph, ids = parse_key(pk)
                        kw[ph] = list(zip(ids, parse_data(d)))
                    new = ind.MolarFlowIndexer(chemicals=cs.real, **kw)
                    writes = [(parse_key(pk), parse_data(d)) for pk, d in parts]
                elif op == 'kcix':
                    key, data = parse_key(t[3]), parse_data(t[4])
                    new = ind.ChemicalMolarFlowIndexer(t[2], chemicals=cs.real, **dict(zip(key, data)))
                    writes = [(key, data)]
                else:
                    key, data = parse_key(t[2]), parse_data(t[3])
                    new = ind.SplitIndexer(chemicals=cs.real, **dict(zip(key, data)))
                    writes = [(key, data)]
            except Exception as e:
                self.tags.add(op + ':err:' + err_name(e))
                return line, 'err=' + err_name(e)
            self.ixs.append((new, int(t[1]))); self.version.append(0)
            n = len(self.ixs) - 1
            wt_groups = {d[1] for d in cs.defs if d[0] == 'group' and d[4]}
            if wt_groups and any(g_ in line for g_ in map(enc, wt_groups)): self.inexact.add(n)
            self.tags.add(op + ':ok')
            # the entries must be what the name-keyed writes say, on an otherwise empty indexer
            rows = dense(new)
            zero = [[0.0] * len(r) for r in rows]
            want = {}
            ok = True
            for key, data in writes:
                plan = self._write_plan(n, key, data, zero, 'mol')
                if plan is None: ok = False; break
                want.update(plan[1])
            if ok:
                for r, row in enumerate(rows):
                    for j, x in enumerate(row):
                        w_ = want.get((r, j), 0)
                        if Fraction(x) != w_ and not (n in self.inexact and abs(x - float(w_)) <= 1e-12 + 1e-9 * abs(x)):
                            fail(f'{op}:mismatch', f'constructed {self.labels(new)} {rows}; entry [{r},{j}] should be {float(want.get((r, j), 0))}')
                            ok = False; break
                    if not ok: break
            else:
                self.tags.add(op + ':unjudged')
            return line, ('~' if n in self.inexact else '') + f'ok {"".join(self.labels(new))} ' + show_dense(rows)

        if op == 'six':
            s = int(t[1])
            self.ixs.append((ind.SplitIndexer.blank(self.sets[s].real), s)); self.version.append(0)
            return line, 'ok'

        if op == 'mix':
            s = int(t[1])
            phases = '' if t[2] == '-' else t[2]
            try:
                m = ind.MolarFlowIndexer.blank(list(phases), self.sets[s].real)
            except Exception as e:
                return line, 'err=' + err_name(e)
            self.ixs.append((m, s)); self.version.append(0)
            self.tags.add(f'phases:{len(m.phases)}')
            return line, 'ok ' + ''.join(m.phases)

        if op in ('array', 'split', 'iarray', 'isplit'):
            cs = self.sets[int(t[1])]
            key = parse_key(t[2]); data = parse_data(t[3])
            mline = f'{op} {t[1]} {model_key(key)} {t[3]}'
            exp = self.expect_array(cs, key, data, op in ('split', 'isplit'), op == 'isplit')
            as_dict = (i % 2 == 1 and isinstance(data, list) and len(data) == len(key) and len(set(map(str, key))) == len(key)
                       and all(isinstance(k, str) for k in key))
            try:
                if op == 'array': v = cs.real.kwarray(dict(zip(key, data))) if as_dict else cs.real.array(key, data)
                elif op == 'split': v = cs.real.kwsplit(dict(zip(key, data))) if as_dict else cs.real.split(key, data)
                elif op == 'iarray': v = (cs.real.ikwarray(dict(zip(key, data))) if as_dict else cs.real.iarray(key, data)).data
                else: v = (cs.real.isplit(dict(zip(key, data))) if as_dict else cs.real.isplit(data, order=key)).data
            except Exception as e:
                self.tags.add(op + ':err:' + err_name(e))
                if exp is not None:
                    fail(f'{op}:raises-{err_name(e)}@{err_site(e)}', f'valid names {t[2]} with well-shaped data raised '
                                                                     f'{type(e).__name__}: {str(e)[:80]}')
                return mline, 'err=' + err_name(e)
            ans = canon(v)
            if exp is not None:
                self.tags.add(op + ':ok')
                if ans != exp:
                    fail(f'{op}:mismatch', f'{op}({t[2]}, {t[3]}) gave {ans}; by the positions of the names it is {exp}')
            else:
                self.tags.add(op + ':unjudged')
            return mline, ans

        if op in ('get', 'getm'):
            mass = op == 'getm'
            n = int(t[1]); ix, s = self.ixs[n]; cs = self.sets[s]
            key = parse_key(t[2])
            mline = f'{op} {t[1]} {model_key(key)}'
            exp = self.expect_get(n, key, mass)
            rkey = as_array_key(key, i)
            mark = '~' if (mass or n in self.inexact) else ''
            same = close_line if mark else (lambda a, b: a == b)
            try:
                tgt = ix.by_mass() if mass else ix
                if i % 5 == 2 and not isinstance(ix, ind.SplitIndexer):
                    # the same read through Indexer.get_data (conversion factor 1)
                    units = 'kg/hr' if mass else 'kmol/hr'
                    v = tgt.get_data(units, *rkey) if (isinstance(rkey, tuple) and len(rkey) >= 2) else tgt.get_data(units, rkey)
                    self.tags.add('route:get_data')
                else:
                    v = tgt[rkey]
            except Exception as e:
                self.note_cache(ix)
                self.tags.add(op + ':err:' + err_name(e))
                if exp is not None:
                    fail(f'{op}:raises-{err_name(e)}@{err_site(e)}',
                         f'valid {exp[0]} key {t[2]} raised {type(e).__name__}: {str(e)[:80]}')
                return mline, 'err=' + err_name(e)
            self.note_cache(ix)
            ans = canon(v)
            probe = key[1] if (isinstance(key, (tuple, list)) and len(key) == 2 and isinstance(ix, ind.MaterialIndexer)) else key
            if isinstance(probe, str) and probe in cs.shared and not (probe is key and len(probe) == 1):
                fail(f'{op}:shared-name-resolves', f'{t[2]}: the name {probe!r} is claimed by two chemicals of the set and must be '
                                                   f'undefined, but the lookup answered {ans}')
            if exp is not None:
                self.tags.add(op + ':' + exp[0])
                if not same(ans, exp[1]):
                    fail(f'{op}/{exp[0]}:mismatch', f'{t[2]} gave {ans}, the data at the positions of the names say {exp[1]}')
            else:
                self.tags.add(op + ':unjudged')
            hk = (n, mass, t[2].replace('[', '(').replace(']', ')'), self.version[n], len(cs.defs))
            if hk in self.seen and self.seen[hk] != ans:
                fail(f'{op}:history-dependent', f'{t[2]} gave {self.seen[hk]} earlier and {ans} now on unchanged data')
            self.seen.setdefault(hk, ans)
            return mline, mark + ans

        if op in ('set', 'setm'):
            mass = op == 'setm'
            n = int(t[1]); ix, s = self.ixs[n]; cs = self.sets[s]
            key = parse_key(t[2])
            sparse_arg = None
            if t[3].startswith('r:'):
                # the value is a SparseVector: row `q` of indexer `j` (imol[key] = other.mol); the model is given its entries
                j, q = map(int, t[3][2:].split('.'))
                src = self.ixs[j][0]
                sparse_arg = src.data.rows[q] if isinstance(src, ind.MaterialIndexer) else src.data
                data = [float(x) for x in sparse_arg.to_array()]
                if j in self.inexact: self.inexact.add(n)
                self.tags.add('value:sparse-vector' + (':self' if sparse_arg is (ix.data.rows[0] if isinstance(ix, ind.MaterialIndexer) else ix.data) else ''))
                t = t[:3] + [show_data(data)]
            else:
                data = parse_data(t[3])
            mline = f'{op} {t[1]} {model_key(key)} {t[3]}'
            rkey = as_array_key(key, i)
            before = dense(ix)
            plan = self.write_plan(n, key, data, before, mass)
            addressed = self.addressed(n, key, before)
            arg = data
            if sparse_arg is not None: arg = sparse_arg
            elif isinstance(data, list) and (i % 2): arg = np.array(data, dtype=float)
            wt_groups = {d[1] for d in cs.defs if d[0] == 'group' and d[4]}
            if mass or (wt_groups and any(g_ in t[2] for g_ in map(enc, wt_groups))): self.inexact.add(n)
            mark = '~' if n in self.inexact else ''
            try:
                tgt = ix.by_mass() if mass else ix
                if i % 5 == 2 and not isinstance(ix, ind.SplitIndexer) and not isinstance(arg, list) and sparse_arg is None:
                    units = 'kg/hr' if mass else 'kmol/hr'
                    if isinstance(rkey, tuple) and len(rkey) >= 2: tgt.set_data(arg, units, *rkey)
                    else: tgt.set_data(arg, units, rkey)
                    self.tags.add('route:set_data')
                else:
                    tgt[rkey] = arg
            except Exception as e:
                self.note_cache(ix)
                self.tags.add(op + ':err:' + err_name(e))
                after = dense(ix)
                if after != before: self.version[n] += 1; self.tags.add(op + ':failed-after-partial-write')
                if plan is not None:
                    fail(f'{op}:raises-{err_name(e)}@{err_site(e)}',
                         f'valid {plan[0]} key {t[2]} with well-shaped data raised {type(e).__name__}: {str(e)[:80]}')
                elif addressed is not None:
                    # a rejected write may have written part of what the key addresses, never anything else
                    for r, (ra, rb) in enumerate(zip(after, before)):
                        for j, (xa, xb) in enumerate(zip(ra, rb)):
                            if (r, j) not in addressed[1] and xa != xb:
                                fail(f'{op}/{addressed[0]}:failed-write-frame',
                                     f'rejected write through {t[2]} changed entry [{r},{j}] {xb} -> {xa}, which the key does not address')
                return mline, 'err=' + err_name(e)
            self.note_cache(ix)
            self.version[n] += 1
            after = dense(ix)
            if plan is not None:
                form, expected = plan
                self.tags.add(op + ':' + form)
                done = False
                for r, (ra, rb) in enumerate(zip(after, before)):
                    for j, (xa, xb) in enumerate(zip(ra, rb)):
                        want = expected.get((r, j))
                        if want is None:
                            if xa != xb:
                                fail(f'{op}/{form}:frame', f'entry [{r},{j}] not addressed by {t[2]} changed {xb} -> {xa}')
                                done = True; break
                        elif Fraction(xa) != want and not (mark and abs(xa - float(want)) <= 1e-12 + 1e-9 * abs(xa)):
                            fail(f'{op}/{form}:written', f'entry [{r},{j}] is {xa} after writing {t[3]} to {t[2]}; expected {float(want)}')
                            done = True; break
                    if done: break
            elif addressed is not None:
                # what is written is not pinned down (repeated positions, data of another length), where it may land is
                self.tags.add(op + ':frame-only')
                for r, (ra, rb) in enumerate(zip(after, before)):
                    for j, (xa, xb) in enumerate(zip(ra, rb)):
                        if (r, j) not in addressed[1] and xa != xb:
                            fail(f'{op}/{addressed[0]}:frame', f'entry [{r},{j}] not addressed by {t[2]} changed {xb} -> {xa}')
            else:
                self.tags.add(op + ':unjudged')
            return mline, mark + 'ok ' + show_dense(after)

        if op in ('copylike', 'mixfrom'):
            l, r = int(t[1]), int(t[2])
            (il, sl), (ir, sr) = self.ixs[l], self.ixs[r]
            multi = isinstance(il, ind.MaterialIndexer) or isinstance(ir, ind.MaterialIndexer)
            before_rows, src_rows = dense(il), dense(ir)
            before_ph, src_ph = self.labels(il), self.labels(ir)
            if not isinstance(il, ind.MaterialIndexer) and isinstance(ir, ind.MaterialIndexer):
                # a single-phase receiver takes the SUM of the source's rows (entries that cancel carry nothing over)
                src_rows = [[float(sum(Fraction(r[j]) for r in src_rows)) for j in range(len(src_rows[0]))]]
                src_ph = src_ph[:1]
            casL, casR = self.sets[sl].real.CASs, self.sets[sr].real.CASs
            valid = all(casR[j] in casL for row in src_rows for j, x in enumerate(row) if x)
            try:
                if op == 'copylike': il.copy_like(ir)
                else: il.mix_from([il, ir])
            except Exception as e:
                self.tags.add(op + ':err:' + err_name(e))
                if dense(il) != before_rows: self.version[l] += 1
                if valid:
                    fail(f'{op}:raises-{err_name(e)}@{err_site(e)}', f'all chemicals present, raised {type(e).__name__}: {str(e)[:80]}')
                return line, 'err=' + err_name(e)
            self.version[l] += 1
            after_rows, after_ph = dense(il), self.labels(il)
            grown = isinstance(il, ind.MaterialIndexer) and len(after_ph) > len(before_ph)
            self.tags.add(op + (':same' if sl == sr else ':cross') + (':multi' if multi else '') + (':grown' if grown else ''))
            if grown and list(after_ph).index(before_ph[0]) != 0: self.tags.add('grown:rows-renumbered')
            # the material, label by label (a label the receiver lacks goes to its case variant)
            n = len(casL)
            want = {p: [Fraction(0)] * n for p in after_ph}
            ok = all(p in after_ph for p in before_ph) or not isinstance(il, ind.MaterialIndexer)
            if op == 'mixfrom' or l == r:
                for p, row in zip(before_ph, before_rows):
                    tgt = p if p in want else after_ph[0]
                    want[tgt] = [a + Fraction(x) for a, x in zip(want[tgt], row)]
            if not (op == 'copylike' and l == r):
                for p, row in zip(src_ph, src_rows):
                    if isinstance(il, ind.MaterialIndexer):
                        tgt = p if p in want else (p.lower() if p.isupper() else p.upper())
                    else:
                        tgt = after_ph[0]
                    if tgt not in want: ok = False; break
                    for j, x in enumerate(row):
                        if x: want[tgt][casL.index(casR[j])] += Fraction(x)
            got = {p: [Fraction(x) for x in row] for p, row in zip(after_ph, after_rows)}
            if r in self.inexact: self.inexact.add(l)
            if not ok or (got != want and not (l in self.inexact and set(got) == set(want) and all(
                    abs(float(a) - float(b)) <= 1e-12 + 1e-9 * abs(float(a)) for p in got for a, b in zip(got[p], want[p])))):
                fail(f'{op}:mismatch', f'phases {after_ph} data {after_rows}; phase by phase and CAS by CAS it should be '
                                       f'{ {p: [float(x) for x in v] for p, v in want.items()} }')
            return line, ('~' if l in self.inexact else '') + f'ok {"".join(after_ph)} ' + show_dense(after_rows)

        raise ValueError('unknown op ' + line)

    @staticmethod
    def names_stay(cs, fail, op):
        """every name of a chemical keeps its single position when another name is defined"""
        for n, p in cs.known.items():
            try: q = cs.real.index(n)
            except Exception: q = None
            if q != p:
                fail(f'{op}:moved-name', f'name {n!r} resolved to {p} before this definition and to {q} after it')
                break

    @staticmethod
    def labels(ix):
        if isinstance(ix, ind.SplitIndexer): return ('l',)          # no phase: the model prints its placeholder
        return tuple(ix.phases) if isinstance(ix, ind.MaterialIndexer) else (ix.phase,)

    def chems_line(self, cs):
        return 'chems ' + ' '.join(f'{enc(ID)}|{cas}|{",".join(enc(n) for n in names)}|{frac(mw)}'
                                   for ID, cas, names, mw in cs.specs)

    def write_plan(self, n, key, data, before, mass=False):
        """(form, {(row, col): expected molar value}) for a valid key with well-shaped data, else None"""
        plan = self._write_plan(n, key, data, before, 'wt' if mass else 'mol')
        if plan is None or not mass: return plan
        cs = self.sets[self.ixs[n][1]]
        mw = cs.mws()
        return plan[0], {(r, j): v / mw[j] for (r, j), v in plan[1].items()}

    def addressed(self, n, key, before):
        """(form, {(row, col)}) the entries a valid key addresses (whatever the data), else None"""
        ix, s = self.ixs[n]; cs = self.sets[s]
        size = len(before[0])
        if isinstance(ix, ind.MaterialIndexer):
            if not (isinstance(key, (tuple, list)) and len(key) == 2):
                if isinstance(key, str) and self.pos_of(cs, key) is None:
                    p = self.phase_row(ix.phases, key)
                    return None if p is None else ('phase', {(p, j) for j in range(size)})
                return None
            ph, ids = key
            if self.pos_of(cs, ph) is not None: return None
            if ph is Ellipsis: rows, prefix = list(range(len(before))), 'allphase+'
            else:
                p = self.phase_row(ix.phases, ph)
                if p is None: return None
                rows, prefix = [p], 'phase+'
        else:
            ids, rows, prefix = key, [0], ('split+' if isinstance(ix, ind.SplitIndexer) else '')
        f = self.chem_form(cs, ids)
        if f is None: return None
        form, plan = f
        if plan[0] == 'all': cols = range(size)
        elif plan[0] == 'one': cols = [plan[1]]
        elif plan[0] == 'grp': cols = plan[2]
        else: cols = [i for e in plan[1] for i in ([e[1]] if e[0] == 'one' else e[2])]
        return prefix + form, {(r, j) for r in rows for j in cols}

    def expect_array(self, cs, key, data, split, scalar_groups=False):
        """canonical result of chemicals.array / split from the positions of the names in a fresh object"""
        if not isinstance(key, (tuple, list)) or not all(isinstance(k, str) for k in key): return None
        pos = [self.pos_of(cs, k) for k in key]
        if any(p is None for p in pos): return None
        grouped = any(isinstance(p, list) for p in pos)
        if grouped and not split: return None
        size = len(cs.specs)
        out = [Fraction(0)] * size
        if isinstance(data, list):
            if any(isinstance(x, list) for x in data) or len(data) != len(key): return None
            vals = data
        else:
            if grouped and not scalar_groups: return None
            vals = [data] * len(key)
        for p, v in zip(pos, vals):
            for j in (p if isinstance(p, list) else [p]): out[j] = Fraction(v)
        return 'v:' + ','.join(frac(x) for x in out)

    def _write_plan_split(self, n, key, data, before):
        ix, s = self.ixs[n]; cs = self.sets[s]
        size = len(before[0])
        f = self.chem_form(cs, key)
        if f is None: return None
        form, plan = f
        form = 'split+' + form
        scalar = not isinstance(data, list)
        if plan[0] == 'all':
            vals = self.row_values(data, size)
            return None if vals is None else (form, {(0, j): vals[j] for j in range(size)})
        if plan[0] == 'one':
            return (form, {(0, plan[1]): Fraction(data)}) if scalar else None
        ents = [plan] if plan[0] == 'grp' else plan[1]
        flat = [i for e in ents for i in ([e[1]] if e[0] == 'one' else e[2])]
        if len(set(flat)) != len(flat): return None
        exp = {}
        if plan[0] == 'grp':
            if scalar: vals = [Fraction(data)] * len(plan[2])
            elif len(data) != len(plan[2]): return None
            else: vals = [Fraction(x) for x in data]
            for i, v in zip(plan[2], vals): exp[(0, i)] = v
            return form, exp
        if not scalar and len(data) != len(ents): return None
        for n_, e in enumerate(ents):
            x = Fraction(data) if scalar else Fraction(data[n_])
            for i in ([e[1]] if e[0] == 'one' else e[2]): exp[(0, i)] = x
        return form, exp

    def _write_plan_2d(self, n, key, data, before, basis):
        """2-d data (one row per phase) written through (..., IDs): row p of the data goes to phase p"""
        ix, s = self.ixs[n]; cs = self.sets[s]
        if not (isinstance(ix, ind.MaterialIndexer) and isinstance(key, (tuple, list)) and len(key) == 2 and key[0] is Ellipsis):
            return None
        if len(data) != len(before) or not all(isinstance(r, list) for r in data): return None
        f = self.chem_form(cs, key[1])
        if f is None: return None
        form, plan = f
        size = len(before[0])
        exp = {}
        if plan[0] == 'all':
            if any(len(r) != size for r in data): return None
            for p, r in enumerate(data):
                for j in range(size): exp[(p, j)] = Fraction(r[j])
        elif plan[0] == 'one':
            if any(len(r) != 1 for r in data): return None
            for p, r in enumerate(data): exp[(p, plan[1])] = Fraction(r[0])
        elif plan[0] == 'grp':
            comp = cs.group_comp(plan[1], basis); where = plan[2]            # x[p, j] * comp_j, at the group's index order
            if comp is None or any(len(r) != len(where) for r in data) or len(set(where)) != len(where): return None
            # the composition is stored in the user's order, aligned with the user's IDs
            order = self.members(cs, plan[1])
            if order != where: return None
            for p, r in enumerate(data):
                for j, (i, c) in enumerate(zip(where, comp)): exp[(p, i)] = Fraction(r[j]) * c
        else:
            ents = plan[1]
            if any(e[0] == 'grp' for e in ents): return None
            where = [e[1] for e in ents]
            if len(set(where)) != len(where) or any(len(r) != len(where) for r in data): return None
            for p, r in enumerate(data):
                for j, i in enumerate(where): exp[(p, i)] = Fraction(r[j])
        return 'allphase2d+' + form, exp

    def _write_plan(self, n, key, data, before, basis):
        if isinstance(self.ixs[n][0], ind.SplitIndexer):
            if isinstance(data, list) and any(isinstance(x, list) for x in data): return None
            return self._write_plan_split(n, key, data, before)
        ix, s = self.ixs[n]; cs = self.sets[s]
        multi = isinstance(ix, ind.MaterialIndexer)
        size = len(before[0])
        if isinstance(data, list) and any(isinstance(x, list) for x in data):
            return self._write_plan_2d(n, key, data, before, basis)
        if multi:
            if not (isinstance(key, (tuple, list)) and len(key) == 2):
                # a bare phase label resets that row
                if isinstance(key, str) and self.pos_of(cs, key) is None:
                    p = self.phase_row(ix.phases, key)
                    if p is None: return None
                    vals = self.row_values(data, size)
                    return None if vals is None else ('phase', {(p, j): vals[j] for j in range(size)})
                return None
            ph, ids = key
            if self.pos_of(cs, ph) is not None: return None
            if ph is Ellipsis: rows = list(range(len(before)))
            else:
                p = self.phase_row(ix.phases, ph)
                if p is None: return None
                rows = [p]
            prefix = 'allphase+' if ph is Ellipsis else 'phase+'
        else:
            ids, rows, prefix = key, [0], ''
        f = self.chem_form(cs, ids)
        if f is None: return None
        form, plan = f
        exp = {}
        scalar = not isinstance(data, list)
        if plan[0] == 'all':
            vals = self.row_values(data, size)
            if vals is None: return None
            for r in rows:
                for j in range(size): exp[(r, j)] = vals[j]
            return prefix + form, exp
        if plan[0] == 'one':
            if ph_all_vector(prefix, scalar):
                if len(data) != len(rows): return None
                for r in rows: exp[(r, plan[1])] = Fraction(data[r])
                return prefix + form, exp
            if not scalar: return None
            for r in rows: exp[(r, plan[1])] = Fraction(data)
            return prefix + form, exp
        ents = [plan] if plan[0] == 'grp' else plan[1]
        flat = [i for e in ents for i in ([e[1]] if e[0] == 'one' else e[2])]
        if len(set(flat)) != len(flat): return None          # repeated positions: "what was written" is ambiguous
        if plan[0] == 'grp':
            comp = cs.group_comp(plan[1], basis)
            if comp is None: return None          # a second name of a group without a composition of its own
            if scalar and data and any(c == 0 for c in comp): self.tags.add('group-scalar:zero-fraction')
            if scalar:
                # member j (in the order of the user's definition) receives x * comp_j
                where = self.members(cs, plan[1])
                vals = [Fraction(data) * Fraction(c) for c in comp]
            elif prefix == 'allphase+': return None
            else:
                if len(data) != len(plan[2]): return None
                where = plan[2]
                vals = [Fraction(x) for x in data]
            for r in rows:
                for i, v in zip(where, vals): exp[(r, i)] = v
            return prefix + form, exp
        # sequence
        if scalar and form == 'nested' and prefix == 'allphase+': return None   # not broadcast by the code; see report
        if not scalar and len(data) != len(ents): return None
        for n_, e in enumerate(ents):
            x = Fraction(data) if scalar else Fraction(data[n_])
            if e[0] == 'one':
                for r in rows: exp[(r, e[1])] = x
            else:
                comp = cs.group_comp(e[1], basis)
                if comp is None: return None
                for r in rows:
                    for i, c in zip(self.members(cs, e[1]), comp): exp[(r, i)] = x * Fraction(c)
        return prefix + form, exp

    @staticmethod
    def row_values(data, size):
        if isinstance(data, list):
            if len(data) != size or any(isinstance(x, list) for x in data): return None
            return [Fraction(x) for x in data]
        return [Fraction(data)] * size


def ph_all_vector(prefix, scalar):
    return prefix == 'allphase+' and not scalar


def run_ops(ops):
    U = Universe()
    model_in, outs, failures = [], [], []
    good = False
    for i, line in enumerate(ops):
        try:
            mi, o = U.apply(line, i, failures)
        except EndCase:
            break
        except Exception as e:
            # observing the real objects through their public API raised: the objects are broken
            failures.append({'signature': f'{line.split(" ")[0]}:observation-raises-{type(e).__name__}@{err_site(e)}',
                             'op_index': i, 'what': f'op {i} `{line[:120]}`: observing the result raised '
                                                    f'{type(e).__name__}: {str(e)[:100]}'})
            break
        model_in.append(mi); outs.append(o)
        if line.startswith('get') and not o.startswith('err') and any(ch in o for ch in '123456789'): good = True
    return U, model_in, outs, failures, good


def run_impl(case: Case) -> ImplResult:
    U, model_in, outs, failures, good = run_ops(case.ops)
    # one failure per signature is enough for a case
    seen, fs = set(), []
    for f in failures:
        if f['signature'] not in seen:
            seen.add(f['signature']); fs.append(f)
    key = hashlib.md5('\n'.join(case.ops).encode()).hexdigest() if good else None
    tags = sorted(U.tags) + (['generation-stopped-early'] if case.meta.get('stopped') else []) + ['kind:' + str(case.meta.get('kind', '?'))]
    return ImplResult(model_in=model_in, outs=outs, failures=fs, tags=tags, nontrivial=key)


def protect_prefix(case):
    return 0


# --------------------------------------------------------------------------
# generation
# --------------------------------------------------------------------------

def dy(rng, zero=0.12):
    if rng.random() < zero: return 0.0
    return rng.randrange(-64, 257) / (1 << rng.randrange(0, 4))


# totals are powers of two (exact normalisation); about a third of the compositions have a member with fraction ZERO:
# a scalar written to such a group must leave that member at 0, whatever it held before
GROUP_COMPS = {1: [[1]], 2: [[1, 1], [1, 3], [3, 1], [1, 7], [1, 0], [0, 1], [0, 4]],
               3: [[1, 1, 2], [2, 1, 1], [1, 2, 5], [4, 3, 1], [1, 0, 1], [0, 3, 1], [2, 0, 0]],
               4: [[1, 1, 1, 1], [1, 2, 2, 3], [5, 1, 1, 1], [0, 2, 0, 2], [1, 0, 0, 3]]}
SYN_ALIASES = ['foo', 'bar baz', 'qux', 'a,b', 'x(1)', 'H2O', 'C2H6O', 'water', 'size', 'Ethanol', 'l', 'g', 'q', 'Zed', 'n-1']


class Stop(Exception):
    """the real objects are in a state in which the history cannot usefully be continued"""


class Gen:
    """Builds a history adaptively on the real objects (so that most operations are valid)."""

    def __init__(self, rng):
        self.rng = rng
        self.U = Universe()
        self.ops = []
        self.fail = []

    def do(self, line):
        self.ops.append(line)
        try:
            self.U.apply(line, len(self.ops) - 1, self.fail)
        except Exception:
            raise Stop()

    # ---- chemicals ---------------------------------------------------------
    def recipe(self, n):
        rng = self.rng
        names = rng.sample(POOL, n)
        if n >= 2 and rng.random() < 0.4:          # isomers: two chemicals claim one formula
            pair = list(rng.choice(ISOMERS)); rng.shuffle(pair)
            names = [x for x in names if x not in pair][:n - 2] + pair[:2]
            rng.shuffle(names)
        toks = []
        for k, x in enumerate(names):
            r = rng.random()
            if r < 0.1: toks.append(f'My{k}={x}')
            elif r < 0.13 and x != 'Ethanol' and not any(t.startswith('ethanol=') for t in toks):
                toks.append(f'ethanol={x}')       # an ID that is another chemical's name
            else: toks.append(x)
        for k in range(rng.choice([0, 0, 0, 1, 2]) if n < 8 else 0):
            al = rng.sample(SYN_ALIASES, rng.randrange(0, 4))
            if rng.random() < 0.9: al = [a for a in al if a not in ('size', 'Ethanol')]
            tok = f'X{k}~9990-00-{k}~' + ','.join(enc(a) for a in al)
            if len(toks) < 8: toks.append(tok)
            else: toks[rng.randrange(len(toks))] = tok
        rng.shuffle(toks)
        return toks

    def new_set(self, n):
        for _ in range(6):
            before = len(self.U.sets)
            self.do('chems ' + ' '.join(self.recipe(n)))
            if len(self.U.sets) > before: return len(self.U.sets) - 1
        before = len(self.U.sets)
        self.do('chems Water Ethanol')
        if len(self.U.sets) == before: raise Stop()
        return len(self.U.sets) - 1

    def accepted(self, s):
        cs = self.U.sets[s]
        idx = cs.real._index          # generator only: which names exist (never used by the oracle)
        return (sorted(k for k, v in idx.items() if isinstance(v, int)),
                sorted(k for k, v in idx.items() if not isinstance(v, int)))      # sorted: independent of the hash seed

    def define_some(self, s, n_alias, n_group):
        rng = self.rng
        cs = self.U.sets[s]
        for _ in range(n_alias):
            names, groups = self.accepted(s)
            ID = rng.choice(names)
            r = rng.random()
            if r < 0.7: a = f'al{rng.randrange(40)}'
            elif r < 0.8: a = rng.choice(names)
            elif r < 0.86: a = rng.choice(RESERVED)
            elif r < 0.9 and groups: a = rng.choice(groups)
            elif r < 0.93: ID = 'Nope'; a = 'zz'
            else: a = rng.choice(['with space', 'c,d', 'p(2)', 'Ünï'])
            q = rng.random()
            if q < 0.05 and groups:                                   # a group name as ID
                ID = rng.choice(groups)
                if a in groups: a = f'al{rng.randrange(40)}'          # (which group names share one object is not modelled)
            elif q < 0.07: ID = rng.choice(['size', 'MW'])            # an attribute name as ID
            self.do(f'alias {s} {enc(ID)} {enc(a)}')
        for _ in range(n_group):
            self.group(s)

    def group(self, s, name=None):
        rng = self.rng
        names, groups = self.accepted(s)
        size = self.U.sets[s].real.size
        k = rng.randrange(1, min(4, size) + 1)
        r = rng.random()
        if r < 0.8:
            pos = rng.sample(range(size), k)
            idx = self.U.sets[s].real._index
            ids = [rng.choice([n for n in names if idx[n] == p]) for p in pos]
        elif r < 0.87: ids = [rng.choice(names) for _ in range(k)]       # may repeat a chemical
        elif r < 0.92 and groups: ids = [rng.choice(groups), rng.choice(names)]
        elif r < 0.96: ids = [rng.choice(names), 'Nope']
        else: ids = []
        if name is None: name = f'G{len(groups) + rng.randrange(2)}' if rng.random() < 0.9 else 'Grp two'
        r = rng.random()
        if not ids: comp = '-'
        elif r < 0.25: comp = '-' if len(ids) in (1, 2, 4) else ','.join(map(str, GROUP_COMPS[3][0]))
        elif r < 0.93: comp = ','.join(map(str, rng.choice(GROUP_COMPS[len(ids)])))
        else: comp = '1,1,1,1,1'
        if name in groups and not GEN_REDEFINE_GROUPS: return
        if GEN_GROUP_CLOBBER and rng.random() < 0.06: name = rng.choice(names + ['size', 'MW'])
        wt = ' wt' if rng.random() < 0.15 else ''
        self.do(f'group {s} {enc(name)} {",".join(enc(x) for x in ids) if ids else "-"} {comp}{wt}')

    # ---- keys --------------------------------------------------------------
    def name(self, s, bad=0.04):
        rng = self.rng
        names, groups = self.accepted(s)
        r = rng.random()
        shared = sorted(self.U.sets[s].shared)
        if shared and r < max(bad, 0.02): return rng.choice(shared)       # claimed by two chemicals: must be undefined
        if r < bad: return rng.choice(['Nope', 'H2O2', 'C2H6O', 'x', ''.join(rng.choice('abcXYZ') for _ in range(3))])
        if groups and r < bad + 0.2: return rng.choice(groups)
        return rng.choice(names)

    def chem_key(self, s, bad=0.04, big=False, top=True):
        """a chemical-level key as a Python object"""
        rng = self.rng
        r = rng.random()
        if not big:
            if r < 0.28: return self.name(s, bad)
            if r < 0.34: return Ellipsis
        k = rng.choice([0, 1, 2, 2, 3, 3, 4, 5]) if not big else rng.choice([2, 3, 3, 4, 4, 5])
        seq = [self.name(s, bad / 2) for _ in range(k)]
        if rng.random() < 0.03 and seq:
            deep = [(('Water',),), [['Water']], ('Water', ['Ethanol']), ((), ())]
            seq[rng.randrange(len(seq))] = rng.choice(([Ellipsis, ('Water',), ['Water']] + deep) if top else [('Water',), ['Water'], ((),)])
        return tuple(seq) if rng.random() < 0.7 else seq

    def phase_label(self, ix):
        rng = self.rng
        r = rng.random()
        ph = ix.phases
        if r < 0.7: return rng.choice(ph)
        if r < 0.85:
            p = rng.choice(ph); return p.lower() if p.isupper() else p.upper()
        if r < 0.95: return rng.choice(VALID_PHASES)
        return rng.choice(['x', 'G', 'liq', '1'])

    def mat_key(self, n, bad=0.04, big=False):
        rng = self.rng
        ix, s = self.U.ixs[n]
        r = rng.random()
        if r < (0.3 if not big else 0.45): return self.chem_key(s, bad, big)
        if r < 0.36 and not big: return self.phase_label(ix)
        ph = Ellipsis if rng.random() < 0.25 else self.phase_label(ix)
        ids = self.chem_key(s, bad, big, top=False)
        if ids is Ellipsis and not GEN_PHASE_ELLIPSIS: ids = self.name(s, 0)
        if rng.random() < 0.02: return (ph, ids, 'Water')
        return (ph, ids) if rng.random() < 0.9 else [ph, ids]

    def key(self, n, bad=0.04, big=False):
        ix, s = self.U.ixs[n]
        return self.mat_key(n, bad, big) if isinstance(ix, ind.MaterialIndexer) else self.chem_key(s, bad, big)

    # ---- data --------------------------------------------------------------
    def data_for(self, n, key, mass=False):
        """mostly well-shaped data for writing through `key`"""
        rng = self.rng
        ix, s = self.U.ixs[n]
        multi = isinstance(ix, ind.MaterialIndexer)
        size = self.U.sets[s].real.size
        ids, ph = key, None
        if multi and isinstance(key, (tuple, list)) and len(key) == 2: ph, ids = key
        r = rng.random()
        split_nested = isinstance(ix, ind.SplitIndexer) and isinstance(ids, (tuple, list)) and any(
            isinstance(self.U.pos_of(self.U.sets[s], x), list) for x in ids if isinstance(x, str))
        if r < 0.02 and ph is not Ellipsis and not split_nested: return 'm:1,2'
        q = rng.random()
        too_short = isinstance(ids, (tuple, list)) and len(ids) > size       # sparse_vector[n] beyond its size reads 0, a list raises
        if q < 0.07 and not isinstance(ix, ind.SplitIndexer) and ph is not Ellipsis and not too_short:
            # the value is a SparseVector: a row of an indexer of the same chemicals object (possibly this very row)
            cands = [(j, k_) for j, (jx, js) in enumerate(self.U.ixs) if js == s and not isinstance(jx, ind.SplitIndexer)
                     for k_ in range(len(jx.phases) if isinstance(jx, ind.MaterialIndexer) else 1)]
            # the indexer's own row as the value is meaningful only where the code guards it (`if data is sparse: return`):
            # a reset of that very row; elsewhere the data would change while they are being read
            lab = ph if isinstance(ph, str) else (key if (multi and isinstance(key, str)) else None)
            my_row = 0 if not multi else (self.U.phase_row(ix.phases, lab) if lab is not None else None)
            reset_key = ids is Ellipsis or (multi and ph is None and isinstance(key, str))
            self_ok = reset_key and (GEN_ALIASED_MASS_VALUE or not mass)
            cands = [(j, k_) for (j, k_) in cands if self_ok or not (j == n and (my_row is None or k_ == my_row))]
            if cands:
                j, k_ = rng.choice(cands)
                return f'r:{j}.{k_}'
        nested_ids = isinstance(ids, (tuple, list)) and any(isinstance(self.U.pos_of(self.U.sets[s], x), list) or not isinstance(x, str) for x in ids)
        if q < 0.2 and multi and ph is Ellipsis and not nested_ids and (ids is Ellipsis or isinstance(ids, (str, tuple, list))):
            # 2-d data, one row per phase
            width = size if ids is Ellipsis else (1 if isinstance(ids, str) and not isinstance(self.U.pos_of(self.U.sets[s], ids), list)
                                                  else len(self.U.pos_of(self.U.sets[s], ids) or []) if isinstance(ids, str) else len(ids))
            if width: return show_data([[dy(rng) for _ in range(width)] for _ in ix.phases])
        if ids is Ellipsis or (multi and ph is None and isinstance(key, str)):
            if r < 0.5: return show_data(dy(rng))
            return show_data([dy(rng) for _ in range(size if (r < 0.97 or ph is Ellipsis) else rng.randrange(0, size + 1))])
        if isinstance(ids, str):
            if ph is Ellipsis and multi and r < 0.4 and self.U.pos_of(self.U.sets[s], ids).__class__ is int:
                return show_data([dy(rng) for _ in ix.phases])
            if r < 0.75 or ph is Ellipsis: return show_data(dy(rng))
            p = self.U.pos_of(self.U.sets[s], ids)
            k = len(p) if isinstance(p, list) else 1
            return show_data([dy(rng) for _ in range(k)])
        if isinstance(ids, (tuple, list)):
            k = len(ids)
            nested = any(isinstance(self.U.pos_of(self.U.sets[s], x), list) for x in ids)
            if r < 0.4: return show_data(dy(rng))
            if nested and ph is not Ellipsis and r > 0.9: return show_data([dy(rng) for _ in range(rng.randrange(0, k + 2))])
            if nested or ph is Ellipsis or r < 0.93: return show_data([dy(rng) for _ in range(k)])
            return show_data([dy(rng) for _ in range(rng.randrange(0, k + 3))])
        return show_data(dy(rng))

    def fill(self, n):
        rng = self.rng
        ix, s = self.U.ixs[n]
        size = self.U.sets[s].real.size
        if isinstance(ix, ind.MaterialIndexer):
            for p in ix.phases:
                self.do(f'set {n} {p} ' + show_data([dy(rng, 0.25) for _ in range(size)]))
        else:
            self.do(f'set {n} * ' + show_data([dy(rng, 0.25) for _ in range(size)]))

    def transfer(self, cross=0.0):
        """copy_like / mix_from between two indexers, within one chemicals object or (with probability `cross`) across
        two; a single-phase receiver cannot copy_like a multi-phase source (outside the model)"""
        rng = self.rng
        ixs = self.U.ixs
        flows = [j for j, (ix, _) in enumerate(ixs) if not isinstance(ix, ind.SplitIndexer)]
        if not flows: return
        l = rng.choice(flows)
        il, sl = ixs[l]
        same = [j for j in flows if ixs[j][1] == sl]
        other = [j for j in flows if ixs[j][1] != sl]
        r = rng.choice(other) if (other and rng.random() < cross) else rng.choice(same)
        ir = ixs[r][0]
        op = rng.choice(["copylike", "mixfrom", "mixfrom"])
        if not isinstance(il, ind.MaterialIndexer) and isinstance(ir, ind.MaterialIndexer): op = 'mixfrom'
        self.do(f'{op} {l} {r}')

    def phase_probe(self, n, writes=0.15):
        """(phase, IDs) / phase lookups on a multi-phase indexer, through every label it has"""
        rng = self.rng
        ix, s = self.U.ixs[n]
        for p in ix.phases:
            if rng.random() < 0.5:
                lab = p if rng.random() < 0.85 else (p.lower() if p.isupper() else p.upper())
                ids = self.chem_key(s, 0.0, top=False)
                if ids is Ellipsis and not GEN_PHASE_ELLIPSIS: ids = self.name(s, 0)
                key = (lab, ids)
                if rng.random() < writes: self.do(f'set {n} {show_key(key)} {self.data_for(n, key)}')
                self.do(f'get {n} {show_key(key)}')
            if rng.random() < 0.25: self.do(f'get {n} {p}')

    def group_scalar(self, s, nix):
        """a scalar written to a group (the composition decides which member gets what), then read back"""
        rng = self.rng
        names, groups = self.accepted(s)
        cands = [n for n, (ix, sx) in enumerate(self.U.ixs) if sx == s and n < nix]
        if not groups or not cands: return
        grp = rng.choice(groups)
        n = rng.choice(cands)
        ix = self.U.ixs[n][0]
        x = dy(rng, 0.05)
        m = 'm' if (rng.random() < 0.25 and not isinstance(ix, ind.SplitIndexer)) else ''
        if rng.random() < 0.4: self.query_op(s, grp)                  # ask for the members first: that must change nothing
        if rng.random() < 0.5 and not isinstance(ix, ind.SplitIndexer):
            # every member holds material before the scalar arrives (a zero fraction must wipe it out)
            mem = [self.U.sets[s].specs[p_][0] for p_ in (self.U.pos_of(self.U.sets[s], grp) or [])]
            if mem:
                tup = tuple(mem)
                vals = [abs(dy(rng, 0.0)) + 1 for _ in mem]
                key0 = (rng.choice(ix.phases), tup) if isinstance(ix, ind.MaterialIndexer) else tup
                if not isinstance(ix, ind.MaterialIndexer): self.do(f'set {n} {show_key(key0)} {show_data(vals)}')
                else:
                    for p_ in ix.phases: self.do(f'set {n} {show_key((p_, tup))} {show_data(vals)}')
        if isinstance(ix, ind.MaterialIndexer):
            p = rng.choice(list(ix.phases) + ['*'])
            if p == '*' and rng.random() < 0.4: x = [[dy(rng, 0.05) for _ in (self.U.pos_of(self.U.sets[s], grp) or [])] for _ in ix.phases]
            if p == '*' and isinstance(x, list) and (not x or not x[0]): x = dy(rng, 0.05)
            self.do(f'set{m} {n} ({p},{enc(grp)}) {show_data(x)}')
            self.do(f'get{m} {n} ({p},{enc(grp)})')
        else:
            self.do(f'set{m} {n} {enc(grp)} {show_data(x)}')
            self.do(f'get{m} {n} {enc(grp)}')

    def rw(self, n, bad=0.04, pset=0.3):
        rng = self.rng
        key = self.key(n, bad)
        m = 'm' if (rng.random() < 0.14 and not isinstance(self.U.ixs[n][0], ind.SplitIndexer)) else ''
        if rng.random() < pset:
            self.do(f'set{m} {n} {show_key(key)} {self.data_for(n, key, bool(m))}')
            if rng.random() < 0.7: self.do(f'get{m if rng.random() < 0.7 else ""} {n} {show_key(key)}')
        else:
            self.do(f'get{m} {n} {show_key(key)}')

    def copy_then_redefine(self, s):
        """look keys up on a multi-phase indexer, copy() it, then change what a name means (group redefined, a phase
        letter made an alias) and use the same keys on the COPY and on the original: neither may answer from what it
        memoised before"""
        rng = self.rng
        multis = [j for j, (ix, sx) in enumerate(self.U.ixs) if sx == s and isinstance(ix, ind.MaterialIndexer)]
        if not multis: return
        n = rng.choice(multis)
        ix = self.U.ixs[n][0]
        names, groups = self.accepted(s)
        mode = 'group' if (groups and GEN_REDEFINE_GROUPS and (rng.random() < 0.7 or not GEN_PHASE_LETTER_ALIAS)) else \
               ('letter' if GEN_PHASE_LETTER_ALIAS else None)
        if mode is None: return
        keys = []
        if mode == 'group':
            grp = rng.choice(groups)
            p_ = rng.choice(ix.phases)
            keys = [grp, (p_, grp), (Ellipsis, grp), (p_, (rng.choice(names), grp)), (rng.choice(names), grp)]
        else:
            letter = rng.choice(ix.phases)
            if self.U.pos_of(self.U.sets[s], letter) is not None: return
            keys = [letter, (letter, rng.choice(names)), (letter, Ellipsis) if GEN_PHASE_ELLIPSIS else letter]
        keys = rng.sample(keys, rng.randrange(1, len(keys) + 1))
        for k in keys: self.do(f'get {n} {show_key(k)}')
        self.do(f'copyix {n}')
        c = len(self.U.ixs) - 1
        if rng.random() < 0.3: self.do(f'copyix {c}')                      # a copy of the copy
        if mode == 'group': self.group(s, name=grp)
        else: self.do(f'alias {s} {enc(rng.choice(names))} {letter}')
        for j in rng.sample([n, c, len(self.U.ixs) - 1], 3):
            for k in keys:
                if rng.random() < 0.25: self.do(f'set {j} {show_key(k)} {self.data_for(j, k)}')
                self.do(f'get {j} {show_key(k)}')

    def reset_op(self, n=None):
        """reset_chemicals to another chemicals object that has every chemical the indexer carries; the keys looked up
        before are looked up again afterwards (the indexer must now use the memo of the new object)"""
        rng = self.rng
        ixs = self.U.ixs
        cands = [j for j, (ix, _) in enumerate(ixs) if not isinstance(ix, ind.SplitIndexer)]
        if not cands: return
        n = rng.choice(cands) if n is None else n
        ix, s = ixs[n]
        old = self.U.sets[s]
        rows = dense(ix)
        need = {old.specs[j][1] for row in rows for j, x in enumerate(row) if x}
        targets = [c for c, cs in enumerate(self.U.sets) if cs.real is not None and need <= {sp[1] for sp in cs.specs}]
        others = [c for c in targets if c != s]
        if not targets: return
        c2 = rng.choice(others) if (others and rng.random() < 0.85) else rng.choice(targets)
        keys = [self.key(n, 0.0) for _ in range(rng.randrange(1, 4))]
        for k in keys: self.do(f'get {n} {show_key(k)}')
        self.do(f'reset {n} {c2}')
        for k in keys: self.do(f'get {n} {show_key(k)}')
        self.do(f'get {n} {show_key(self.key(n, 0.0))}')

    def ctor_op(self, s):
        """keyword constructors ChemicalIndexer(phase, **ID_data), SplitIndexer(**ID_data), MaterialIndexer(**phase_data)"""
        rng = self.rng
        names, groups = self.accepted(s)
        def ids(kmax=4, with_groups=False):
            pool = names + (groups if with_groups else [])
            pool = [x for x in pool if x not in ('phase', 'units', 'chemicals', 'phases', 'cls')]
            return tuple(rng.sample(pool, min(len(pool), rng.randrange(1, kmax + 1))))
        r = rng.random()
        if r < 0.4:
            k = ids(with_groups=rng.random() < 0.3)
            self.do(f'kcix {s} {rng.choice(VALID_PHASES)} {show_key(k)} {show_data([dy(rng) for _ in k])}')
        elif r < 0.6:
            k = ids(with_groups=rng.random() < 0.4)
            self.do(f'ksix {s} {show_key(k)} {show_data([dy(rng, 0.05) for _ in k])}')
        else:
            phs = rng.sample(VALID_PHASES, rng.randrange(1, 4))
            parts = []
            for p_ in phs:
                k = ids(with_groups=rng.random() < 0.2)
                parts.append(f'{show_key((p_, k))}={show_data([dy(rng) for _ in k])}')
            self.do(f'kmix {s} ' + '|'.join(parts))
        n = len(self.U.ixs) - 1
        if n >= 0 and rng.random() < 0.7: self.rw(n, 0.0, 0.2)

    def query_op(self, s, grp=None):
        """the public read-only queries of CompiledChemicals, interleaved with everything else"""
        rng = self.rng
        names, groups = self.accepted(s)
        real_groups = sorted(self.U.sets[s].real.chemical_groups)
        kind = rng.choice(['members', 'members', 'aliases', 'groups', 'contains', 'available'])
        if grp is not None: kind = 'members'
        if kind == 'members':
            if not real_groups: return
            self.do(f'query {s} members {enc(grp if grp in real_groups else rng.choice(real_groups))}')
        elif kind == 'aliases': self.do(f'query {s} aliases {enc(rng.choice(names))}')
        elif kind == 'groups': self.do(f'query {s} groups')
        elif kind == 'contains':
            n_ = self.name(s, 0.3)
            if n_ not in RESERVED: self.do(f'query {s} contains {enc(n_)}')
        else:
            k = tuple(self.name(s, 0.15) for _ in range(rng.randrange(1, 4)))
            self.do(f'query {s} available {show_key(k)}')

    def getindex_op(self, s):
        rng = self.rng
        k = rng.choice([0, 1, 2, 2, 3, 4])
        seq = [self.name(s, 0.06) for _ in range(k)]
        r = rng.random()
        if r < 0.05 and seq: seq[rng.randrange(k)] = rng.choice([('Water',), ['Water'], Ellipsis])
        key = tuple(seq) if rng.random() < 0.6 else seq
        if r > 0.92: key = self.name(s, 0.1)
        self.do(f'getindex {s} {show_key(key)}')

    def array_op(self, s):
        """chemicals.array / kwarray / split / kwsplit / iarray / ikwarray / isplit: name-keyed construction"""
        rng = self.rng
        op = rng.choice(['array', 'array', 'split', 'iarray', 'isplit'])
        k = rng.choice([1, 2, 2, 3, 4])
        names, groups = self.accepted(s)
        seq = [self.name(s, 0.03) if (op in ('split', 'isplit') or rng.random() < 0.1) else rng.choice(names) for _ in range(k)]
        key = tuple(seq) if rng.random() < 0.6 else seq
        r = rng.random()
        if r < 0.25: data = show_data(dy(rng))
        elif r < 0.9: data = show_data([dy(rng) for _ in seq])
        else: data = show_data([dy(rng) for _ in range(rng.randrange(0, k + 2))])
        self.do(f'{op} {s} {show_key(key)} {data}')


def stoppable(f):
    def wrapper(rng, *a):
        g = Gen(rng)
        meta = {'kind': f.__name__[4:]}
        try:
            f(g, rng, *a)
        except Stop:
            meta['stopped'] = 'real objects unusable'
        except Exception as e:          # e.g. the generator reading `.size` of an object a defect has corrupted
            meta['stopped'] = f'{type(e).__name__}: {str(e)[:80]}'
        return Case(g.ops, meta)
    return wrapper


@stoppable
def gen_small(g, rng):
    n = rng.choice([1, 2, 3, 3, 4, 5, 6, 7, 8])
    s = g.new_set(n)
    g.define_some(s, rng.randrange(0, 4), rng.randrange(0, 4))
    g.do(f'cix {s}' if rng.random() < 0.5 else f'cix {s} {rng.choice(VALID_PHASES)}')
    phs = ''.join(rng.sample(VALID_PHASES, rng.randrange(1, 6)))
    g.do(f'mix {s} {phs}')
    if rng.random() < 0.3: g.do(f'mix {s} {phs if rng.random() < 0.6 else "".join(rng.sample(VALID_PHASES, 2))}')
    if rng.random() < 0.3: g.do(f'cix {s} {rng.choice(VALID_PHASES)}')
    if rng.random() < 0.03: g.do(f'mix {s} lx')
    if rng.random() < 0.3: g.do(f'six {s}')
    nix = len(g.U.ixs)
    for i in range(nix):
        if rng.random() < 0.85: g.fill(i)
    for _ in range(rng.randrange(20, 90)):
        r = rng.random()
        if r < 0.04: g.define_some(s, 1, 0)
        elif r < 0.08:
            g.group(s)
            if rng.random() < 0.7: g.group_scalar(s, nix)
        elif r < 0.12: g.group_scalar(s, nix)
        elif r < 0.17: g.transfer()
        elif r < 0.21: g.array_op(s)
        elif r < 0.24: g.ctor_op(s)
        elif r < 0.27: g.getindex_op(s)
        elif r < 0.29:
            flows = [j for j, (ix_, _) in enumerate(g.U.ixs) if not isinstance(ix_, ind.SplitIndexer)]     # SplitIndexer.copy() raises AttributeError
            if flows: g.do(f'copyix {rng.choice(flows)}')
        elif r < 0.31: g.reset_op()
        elif r < 0.33: g.copy_then_redefine(s)
        elif r < 0.37: g.query_op(s)
        else: g.rw(rng.randrange(len(g.U.ixs)))


@stoppable
def gen_grow(g, rng):
    """multi-phase indexers whose phase set grows IN PLACE (mix_from / copy_like with a source carrying a phase the
    receiver lacks): phase keys looked up before and after, siblings with the old phase tuple (same memo) looked up
    afterwards, new phases that sort before the old ones so that the rows are renumbered"""
    n = rng.choice([1, 2, 3, 3, 4, 5, 8])
    s = g.new_set(n)
    g.define_some(s, rng.randrange(0, 2), rng.randrange(0, 3))
    k = rng.randrange(1, 4)
    old = ''.join(rng.sample('slSL' if rng.random() < 0.6 else VALID_PHASES, k))
    rest = [p for p in VALID_PHASES if p not in old]
    g.do(f'mix {s} {old}')                 # 0: the receiver
    g.do(f'mix {s} {old}')                 # 1: sibling, same (phases, chemicals) memo
    srcs = []
    for _ in range(rng.randrange(1, 4)):
        r = rng.random()
        if r < 0.5 and rest: g.do(f'cix {s} {rng.choice(rest) if rng.random() < 0.8 else rng.choice(VALID_PHASES)}')
        elif r < 0.55: g.do(f'cix {s} {rng.choice(old)}')
        else: g.do(f'mix {s} {"".join(rng.sample(VALID_PHASES, rng.randrange(1, 4)))}')
        srcs.append(len(g.U.ixs) - 1)
    if rng.random() < 0.4: g.do(f'mix {s} {old}'); late_sibling = len(g.U.ixs) - 1
    else: late_sibling = None
    nix = len(g.U.ixs)
    for i in range(nix): g.fill(i)
    for round_ in range(rng.randrange(1, 4)):
        for i in (0, 1): g.phase_probe(i)
        src = rng.choice(srcs)
        rcv = 0 if rng.random() < 0.8 else 1
        g.do(f'{rng.choice(["mixfrom", "mixfrom", "copylike"])} {rcv} {src}')
        for i in (0, 1): g.phase_probe(i)
        if late_sibling is not None: g.phase_probe(late_sibling)
        if rng.random() < 0.5:
            g.do(f'mix {s} {old}')         # a fresh indexer with the OLD phases: must see its own rows
            j = len(g.U.ixs) - 1
            g.fill(j); g.phase_probe(j, writes=0.3)
        for _ in range(rng.randrange(2, 10)): g.rw(rng.choice([0, 1]))
        if rng.random() < 0.3: g.group_scalar(s, nix)


@stoppable
def gen_twins(g, rng):
    """two (or three) DISTINCT chemicals objects compiled from the same list of chemicals (equal ID tuples), in which the
    same alias / group names mean different chemicals; indexers of each with the same phases; the same keys looked up
    alternately through them: whatever is memoised for one must never answer for the other"""
    n = rng.choice([2, 3, 3, 4, 5, 6])
    recipe = [t for t in g.recipe(n) if '~' not in t] or ['Water', 'Ethanol']
    if len(recipe) < 2: recipe = recipe + [x for x in ['Water', 'Ethanol'] if x not in recipe][:1]
    sets = []
    for _ in range(rng.choice([2, 2, 3])):
        before = len(g.U.sets)
        g.do('chems ' + ' '.join(recipe))
        if len(g.U.sets) == before: raise Stop()
        sets.append(len(g.U.sets) - 1)
    size = g.U.sets[sets[0]].real.size
    gnames = [f'G{j}' for j in range(rng.randrange(1, 4))]
    anames = [f'al{j}' for j in range(rng.randrange(1, 4))]
    for s in sets:                                  # same names, (mostly) different meanings
        names, _ = g.accepted(s)
        idx = g.U.sets[s].real._index
        for a in anames:
            p = rng.randrange(size)
            g.do(f'alias {s} {enc(rng.choice([x for x in names if idx[x] == p]))} {a}')
        for gn in gnames:
            k = rng.randrange(1, min(3, size) + 1)
            pos = rng.sample(range(size), k)
            ids = [rng.choice([x for x in names if idx[x] == p]) for p in pos]
            comp = ','.join(map(str, rng.choice(GROUP_COMPS[k])))
            g.do(f'group {s} {gn} {",".join(enc(x) for x in ids)} {comp}')
    phs = ''.join(rng.sample(VALID_PHASES, rng.randrange(1, 4)))
    ixs = {}
    for s in sets:
        g.do(f'mix {s} {phs}'); ixs[s] = [len(g.U.ixs) - 1]
        g.do(f'cix {s}'); ixs[s].append(len(g.U.ixs) - 1)
        if rng.random() < 0.3: g.do(f'six {s}'); ixs[s].append(len(g.U.ixs) - 1)
    for i in range(len(g.U.ixs)): g.fill(i)
    special = gnames + anames
    for _ in range(rng.randrange(8, 30)):
        # one key (built from the shared vocabulary), through the corresponding indexer of every set in turn
        which = rng.randrange(len(ixs[sets[0]]))
        if which >= min(len(v) for v in ixs.values()): which = 0
        s0 = sets[0]
        r = rng.random()
        if r < 0.45: ids = rng.choice(special)
        elif r < 0.8: ids = tuple(rng.choice(special) if rng.random() < 0.6 else g.name(s0, 0.0) for _ in range(rng.randrange(1, 4)))
        else: ids = g.chem_key(s0, 0.0, top=False)
        if which == 0:
            ix0 = g.U.ixs[ixs[s0][0]][0]
            r2 = rng.random()
            key = ids if r2 < 0.25 else ((Ellipsis, ids) if r2 < 0.4 else (g.phase_label(ix0), ids))
        else: key = ids
        order = list(sets); rng.shuffle(order)
        write = rng.random() < 0.25
        for s in order:
            n_ = ixs[s][which]
            if write: g.do(f'set {n_} {show_key(key)} {g.data_for(n_, key)}')
            g.do(f'get {n_} {show_key(key)}')
        if rng.random() < 0.08:
            s = rng.choice(sets)
            g.group(s, name=rng.choice(gnames)) if GEN_REDEFINE_GROUPS else None
    if rng.random() < 0.5: g.copy_then_redefine(rng.choice(sets))
    # an indexer moves to the twin package: from now on it must answer with the twin's names
    for _ in range(rng.randrange(0, 3)):
        g.reset_op(rng.choice([ixs[s][0] for s in sets] + [ixs[s][1] for s in sets]))


@stoppable
def gen_cross(g, rng):
    """two or three packages with overlapping chemicals; copy_like / mix_from through index_overlap, then CAS keys"""
    base = rng.sample(POOL, rng.randrange(3, 8))
    sets = []
    for _ in range(rng.choice([2, 2, 3])):
        sub = rng.sample(base, rng.randrange(2, len(base) + 1))
        g.do('chems ' + ' '.join(sub)); sets.append(len(g.U.sets) - 1)
    multi = rng.random() < 0.6
    for s in sets:
        g.do(f'cix {s}' if not multi else f'cix {s} {rng.choice(VALID_PHASES)}'); g.fill(len(g.U.ixs) - 1)
        if rng.random() < 0.5: g.do(f'cix {s}'); g.fill(len(g.U.ixs) - 1)
        if multi:
            g.do(f'mix {s} {"".join(rng.sample(VALID_PHASES, rng.randrange(1, 4)))}'); g.fill(len(g.U.ixs) - 1)
    nix = len(g.U.ixs)
    for _ in range(rng.randrange(10, 40)):
        r = rng.random()
        l, rr = rng.randrange(nix), rng.randrange(nix)
        if multi and r < 0.5:
            g.transfer(cross=0.8)
            for n_, (ix_, _) in enumerate(g.U.ixs):
                if isinstance(ix_, ind.MaterialIndexer) and rng.random() < 0.5: g.phase_probe(n_)
        elif r < 0.42: g.transfer(cross=0.7)
        elif r < 0.5: g.reset_op()
        elif r < 0.75:
            # the CAS tuple that index_overlap memoises, as a user key
            ix, s = g.U.ixs[l]
            cas = g.U.sets[s].real.CASs
            k = rng.sample(range(len(cas)), rng.randrange(1, len(cas) + 1))
            if rng.random() < 0.6: k.sort()
            key = tuple(cas[j] for j in k)
            if rng.random() < 0.3: key = list(key)
            if rng.random() < 0.3: g.do(f'set {l} {show_key(key)} {show_data([dy(rng) for _ in key])}')
            g.do(f'get {l} {show_key(key)}')
        else: g.rw(l)


@stoppable
def gen_churn(g, rng, tier):
    """fill and evict both memo dictionaries: > 600 distinct keys on one (phases, chemicals) memo"""
    n = rng.choice([1, 2, 3, 4, 5, 6, 7, 8])
    s = g.new_set(n)
    g.define_some(s, 2, 2)
    g.do(f'cix {s}')
    phs = ''.join(rng.sample(VALID_PHASES, rng.randrange(1, 4)))
    g.do(f'mix {s} {phs}')
    g.do(f'mix {s} {phs}')          # shares the memo of the first
    other = None
    if rng.random() < 0.6:
        plain = [t for t in g.U.sets[s].recipe if '~' not in t and '=' not in t] or ['Water']
        g.do('chems ' + ' '.join(rng.sample(plain, rng.randrange(1, len(plain) + 1))))
        other = len(g.U.sets) - 1
        g.do(f'cix {other}')
    for i in range(len(g.U.ixs)): g.fill(i)
    target = rng.choice([620, 650, 720]) if tier == 'quick' else rng.choice([650, 900, 1300])
    distinct = {1: set(), 2: set()}
    probes = []                       # keys revisited later
    redefine_at = rng.randrange(100, 400) if GEN_REDEFINE_GROUPS and rng.random() < 0.5 else -1
    alias_at = rng.randrange(50, 300) if GEN_PHASE_LETTER_ALIAS and rng.random() < 0.3 else -1
    step = 0
    while len(distinct[1]) < target and step < 6 * target:
        step += 1
        n_ix = 1 if rng.random() < 0.85 else rng.choice([0, 2])
        key = g.key(n_ix, bad=0.01, big=rng.random() < 0.9)
        tok = show_key(key)
        if n_ix in (1, 2): distinct[1].add(repr(key).replace('[', '(').replace(']', ')'))
        r = rng.random()
        if r < 0.06: g.do(f'set {n_ix} {tok} {g.data_for(n_ix, key)}')
        g.do(f'get {n_ix} {tok}')
        if rng.random() < 0.04: probes.append((n_ix, tok))
        if probes and rng.random() < 0.08:
            pi, pt = rng.choice(probes); g.do(f'get {pi} {pt}')
        if other is not None and rng.random() < 0.01:
            l, rr = (0, 3) if rng.random() < 0.5 else (3, 0)
            g.do(f'{rng.choice(["copylike", "mixfrom"])} {l} {rr}')
        if step == redefine_at:
            names, groups = g.accepted(s)
            if groups:
                grp = rng.choice(groups)
                g.do(f'get 0 {enc(grp)}'); g.do(f'get 1 {enc(grp)}')
                g.group(s, name=grp)
                g.do(f'get 0 {enc(grp)}'); g.do(f'get 1 {enc(grp)}'); g.do(f'get 1 ({phs[0]},{enc(grp)})')
                distinct[1] = set()      # the memos were (or should have been) emptied: fill them again
        if step == alias_at:
            names, groups = g.accepted(s)
            ph = g.U.ixs[1][0].phases[0]
            g.do(f'get 1 {ph}')
            g.do(f'alias {s} {enc(rng.choice(names))} {ph}')
            g.do(f'get 1 {ph}')
            distinct[1] = set()
    for pi, pt in probes: g.do(f'get {pi} {pt}')


def generate(rng, tier, index, nworkers):
    b = budget(tier)
    n = max(3, b['cases'] // nworkers)
    # every worker starts with one churn case so that both eviction paths run in every run
    yield gen_churn(rng, tier)
    for j in range(n - 1):
        r = rng.random()
        if r < (0.03 if tier == 'quick' else 0.05): yield gen_churn(rng, tier)
        elif r < 0.20: yield gen_cross(rng)
        elif r < 0.32: yield gen_twins(rng)
        elif r < 0.48: yield gen_grow(rng)
        else: yield gen_small(rng)


def corpus():
    W = 'chems Water Ethanol Methanol'
    many = [f'get 1 ({a},{b},{c})' for a in ('Water', 'H2O', 'water') for b in ('Ethanol', 'ethanol', '64-17-5', 'Water')
            for c in ('Methanol', 'CH4O', '67-56-1', 'methanol', 'Water', 'H2O')]
    many2 = [f'get 1 (l,({a},{b},{c}))' for a in ('Water', 'H2O', 'water', 'oxidane', '7732-18-5')
             for b in ('Ethanol', 'ethanol', '64-17-5', 'Water', 'C2H6O')
             for c in ('Methanol', 'CH4O', '67-56-1', 'methanol', 'Water', 'H2O', 'Ethanol', 'ethanol')]
    many3 = [f'get 1 (g,({a},{b},{c}))' for a in ('Water', 'H2O', 'water', 'oxidane', '7732-18-5')
             for b in ('Ethanol', 'ethanol', '64-17-5', 'Water', 'C2H6O')
             for c in ('Methanol', 'CH4O', '67-56-1', 'methanol', 'Water', 'H2O', 'Ethanol', 'ethanol')]
    many4 = [x.replace('(g,', '(*,') for x in many3[:120]]
    cases = [
        # 1. the 501st distinct key of a MaterialIndexer (trim_cache)
        Case([W, 'cix 0', 'mix 0 lg', 'set 1 l v:1,2,4', 'set 1 g v:8,0,16', 'get 1 Water'] + many + many2 + many3 + many4
             + ['get 1 Water', 'get 1 (l,Water)'], {'kind': 'corpus-trim'}),
        # 2. index_overlap memoises the CAS tuple; the same tuple as a user key
        Case([W, 'chems Ethanol Water', 'cix 0', 'cix 1', 'set 1 * v:3,5', 'copylike 0 1', 'get 0 (64-17-5,7732-18-5)',
              'set 0 [64-17-5,7732-18-5] v:7,9', 'get 0 *'], {'kind': 'corpus-overlap'}),
        # 3. a phase paired with the ellipsis
        Case([W, 'mix 0 lg', 'set 0 l v:1,2,4', 'get 0 (l,*)', 'set 0 (g,*) s:3', 'get 0 (*,*)', 'set 0 (*,*) s:1/2', 'get 0 *'],
             {'kind': 'corpus-phase-ellipsis'}),
        # 4. a group redefined after it has been looked up
        Case([W, 'group 0 G Methanol,Ethanol 1,3', 'cix 0', 'mix 0 lg', 'set 0 * v:1,2,4', 'set 1 l v:1,2,4', 'get 0 G', 'get 1 G',
              'get 1 (l,G)', 'group 0 G Water,Methanol -', 'get 0 G', 'get 1 G', 'get 1 (l,G)', 'set 0 G s:8', 'get 0 *'],
             {'kind': 'corpus-redefine'}),
        # 5. an alias equal to a phase label defined after the label was looked up as a phase
        Case([W, 'mix 0 lg', 'set 0 l v:1,2,4', 'set 0 g v:8,0,16', 'get 0 l', 'alias 0 Ethanol l', 'get 0 l', 'get 0 (g,l)'],
             {'kind': 'corpus-phase-alias'}),
        # 6. names claimed by two chemicals are dropped; groups, nested keys, scalar distribution
        Case(['chems Ethanol DimethylEther Propanol Isopropanol X0~9990-00-0~foo,bar%20baz X1~9990-00-1~foo,qux',
              'alias 0 Ethanol EtOH', 'alias 0 Propanol EtOH', 'alias 0 Ethanol size', 'group 0 Alc Ethanol,Propanol,Isopropanol 1,2,5',
              'cix 0', 'set 0 * v:1,2,4,8,16,32', 'get 0 Alc', 'get 0 (EtOH,Alc,qux)', 'set 0 (Alc,bar%20baz) s:8', 'get 0 *',
              'set 0 [Alc,X1] v:16,3', 'get 0 *', 'get 0 C2H6O', 'get 0 foo', 'mix 0 sL', 'set 1 (S,Alc) s:8', 'get 1 (*,Alc)',
              'get 1 (l,EtOH)', 'get 1 L', 'get 1 g', 'set 1 (*,(EtOH,Alc)) v:1,8', 'get 1 (*,Alc)'], {'kind': 'corpus-names'}),
    ]
    cases += [
        # 7. phases grow in place (gas sorts before liquid: rows renumbered); keys memoised before, a sibling after
        Case([W, 'mix 0 ls', 'mix 0 ls', 'cix 0 g', 'set 0 l v:10,2,0', 'set 0 s v:0,0,3', 'set 1 l v:7,0,0', 'set 1 s v:0,0,9',
              'set 2 * v:1,5,0', 'get 0 (l,Water)', 'get 0 (s,Methanol)', 'get 0 (l,(Water,Ethanol))', 'mixfrom 0 2',
              'get 0 (l,Water)', 'get 0 (s,Methanol)', 'get 0 (l,(Water,Ethanol))', 'get 0 (g,Ethanol)', 'get 0 l',
              'set 0 (l,Water) s:42', 'get 0 (*,Water)', 'get 1 (l,Water)', 'get 1 (s,Methanol)', 'get 1 (g,Water)',
              'mix 0 ls', 'set 3 l v:1,2,3', 'get 3 (l,Ethanol)', 'get 3 (s,Water)', 'copylike 1 2', 'get 1 (g,Ethanol)',
              'get 1 (l,Water)', 'get 3 (l,Ethanol)'], {'kind': 'corpus-grow'}),
        # 8. a scalar written to a group whose IDs are listed out of chemical order, non-uniform composition
        Case([W, 'group 0 G Methanol,Water 1,3', 'cix 0', 'mix 0 lg', 'set 0 G s:8', 'get 0 *', 'get 0 G',
              'set 1 (l,G) s:16', 'get 1 (l,*)' if GEN_PHASE_ELLIPSIS else 'get 1 l', 'set 1 (l,(Ethanol,G)) v:1,4', 'get 1 l',
              'set 0 (G,Ethanol) s:4', 'get 0 *'], {'kind': 'corpus-group-order'}),
    ]
    cases += [
        # 9. keys nested too deeply, too few data for a nested key (a prefix is written, then the write raises)
        Case([W, 'group 0 G Methanol,Ethanol 1,3', 'cix 0', 'mix 0 lg', 'set 0 * v:1,2,4', 'get 0 (Water,(Ethanol,(Water)))',
              'get 0 (Water,[Ethanol])', 'get 1 (l,(Water,[Ethanol]))', 'get 1 [l,[Water,(Ethanol)]]', 'get 1 ((l),Water)',
              'set 0 (Water,G,Methanol) v:8,16', 'get 0 *', 'set 1 (l,(Water,G,Water)) v:1', 'get 1 l',
              'set 0 (Water,G) v:', 'get 0 *'], {'kind': 'corpus-deep-short'}),
        # 10. views by mass, weight compositions, name-keyed arrays, SplitIndexer
        Case([W, 'group 0 G Methanol,Water 1,3 wt', 'group 0 H Ethanol,Water 1,1', 'cix 0', 'mix 0 lg', 'six 0', 'set 0 * v:1,2,4',
              'getm 0 *', 'getm 0 (Water,G)', 'setm 0 G s:8', 'get 0 *', 'setm 0 H s:64', 'get 0 *', 'setm 1 (l,(Water,Ethanol)) v:18,46',
              'get 1 l', 'getm 1 (*,H)', 'array 0 (Water,Methanol) v:1,2', 'array 0 [ethanol,H2O] s:3', 'array 0 (Water,G) v:1,2',
              'split 0 (G,Ethanol) v:1/2,1', 'split 0 [Water] s:1/4', 'set 2 * s:1/2', 'set 2 G v:1/4,3/4', 'get 2 G',
              'get 2 (Ethanol,G)', 'set 2 (Ethanol,G) v:1/8,1', 'get 2 *', 'set 2 H s:1/4', 'get 2 (G,H)'], {'kind': 'corpus-views'}),
        # 11. cross-package transfers with multi-phase indexers: index_overlap and phase growth together
        Case([W, 'chems Methanol Water Octane', 'mix 0 ls', 'mix 1 gl', 'cix 1 S', 'set 0 l v:1,2,4', 'set 1 g v:8,16,0',
              'set 1 l v:0,32,0', 'set 2 * v:3,5,0', 'get 0 (l,Water)', 'mixfrom 0 1', 'get 0 (l,Water)', 'get 0 (g,(Water,Methanol))',
              'get 0 (67-56-1,7732-18-5)', 'mixfrom 0 2', 'get 0 s', 'mix 0 ls', 'copylike 3 1', 'get 3 (g,Methanol)', 'set 1 g v:0,0,1',
              'mixfrom 0 1', 'get 0 g', 'copylike 3 1', 'get 3 *', 'cix 0', 'mixfrom 4 1', 'get 4 *'], {'kind': 'corpus-cross-multi'}),
        # 12. names in use: set_alias with a group / attribute for ID
        Case([W, 'group 0 G Methanol,Ethanol 1,3', 'cix 0', 'set 0 * v:1,2,4', 'alias 0 G gg', 'get 0 gg', 'set 0 gg s:1', 'set 0 (Water,gg) s:5',
              'get 0 *', 'alias 0 G Water', 'alias 0 size x', 'alias 0 size size', 'alias 0 MW Water', 'get 0 Water'], {'kind': 'corpus-alias-ids'}),
    ]
    cases += [
        # 13. two distinct chemicals objects with the same IDs, the same group / alias names meaning different chemicals
        Case([W, W, 'group 0 Light Ethanol,Methanol 1,1', 'alias 0 Ethanol Solvent', 'group 1 Light Methanol,Water 1,3',
              'alias 1 Water Solvent', 'mix 0 lg', 'mix 1 lg', 'set 0 l v:1,2,4', 'set 0 g v:8,16,32', 'set 1 l v:1,2,4', 'set 1 g v:8,16,32',
              'get 0 (l,Light)', 'get 1 (l,Light)', 'get 0 Solvent', 'get 1 Solvent', 'get 1 (*,(Solvent,Light))', 'get 0 (*,(Solvent,Light))',
              'set 1 (l,Light) s:8', 'get 1 l', 'set 0 (g,Light) s:8', 'get 0 g', 'get 0 [g,[Light,Solvent]]', 'get 1 [g,[Light,Solvent]]'],
             {'kind': 'corpus-twins'}),
        # 14. isomers: a formula claimed by two chemicals resolves to neither
        Case(['chems Propanol Isopropanol Water', 'cix 0', 'mix 0 lg', 'set 0 * v:1,2,4', 'get 0 C3H8O', 'get 0 (Water,C3H8O)', 'get 1 (l,C3H8O)',
              'get 0 propan-1-ol', 'get 0 propan-2-ol', 'alias 0 Propanol C3H8O', 'get 0 C3H8O'], {'kind': 'corpus-isomers'}),
    ]
    cases.append(
        # 15. values that are SparseVectors (imol[...] = other.mol), also the indexer's own row; 2-d data; array keys; constructors
        Case([W, 'cix 0', 'cix 0', 'mix 0 lg', 'set 0 * v:1,2,4', 'set 1 * v:8,0,0', 'set 0 * r:1.0', 'get 0 *', 'set 0 * r:0.0', 'get 0 *',
              'set 2 l v:1,2,4', 'set 2 l r:1.0', 'get 2 l', 'set 2 (g,*) r:2.1', 'get 2 (*,*)', 'set 0 (Ethanol,Water) r:1.0', 'get 0 *',
              'setm 2 g r:1.0', 'get 2 g', 'set 2 (*,(Water,Methanol)) m:1,2;3,4', 'get 2 (*,*)', 'set 2 (*,Ethanol) m:5;6',
              'set 2 (*,*) m:1,0,2;0,3,0', 'get 2 [l,[Water,Methanol]]', 'get 0 [Water,Methanol]', 'iarray 0 (Methanol,Water) v:1,2',
              'iarray 0 [Water,Ethanol] v:3,4', 'isplit 0 (Methanol,Water) v:1/2,1/4', 'isplit 0 [Water,Ethanol] v:1/2,1', 'isplit 0 (Water) s:1/4'],
             {'kind': 'corpus-values'}))
    cases.append(
        # 16. reset_chemicals to a permuted package (memoised keys re-read), copy(), keyword constructors, get_index,
        #     reads / writes through get_data / set_data (ops 2, 7, 12, ... of a case take that route)
        Case([W, 'chems Ethanol Water', 'mix 0 lg', 'set 2 l v:1,2,0'.replace('set 2', 'set 0'), 'get 0 (l,Water)', 'get 0 (l,(Water,Ethanol))',
              'get 0 Water', 'get 0 (g,Ethanol)', 'reset 0 1', 'get 0 (l,Water)', 'get 0 (l,(Water,Ethanol))', 'get 0 Water', 'get 0 (l,(Water))',
              'copyix 0', 'get 1 (l,Water)', 'set 1 (l,Water) s:8', 'get 0 l', 'cix 0', 'set 2 * v:1,2,4', 'get 2 Ethanol', 'reset 2 0', 'reset 0 0',
              'get 0 (l,Ethanol)', 'kcix 0 l (Ethanol,Water) v:2,1', 'get 3 Water', 'kmix 0 (l,(Water,Ethanol))=v:1,2|(g,(Methanol))=v:4',
              'get 4 (l,(Water,Ethanol))', 'ksix 0 (Methanol,Water) v:1/2,1/4', 'get 5 *', 'getindex 0 (Ethanol,Methanol,Water)',
              'getindex 0 [Water,Nope]', 'getindex 1 (Water,Ethanol)', 'getindex 0 Water', 'getindex 0 *'], {'kind': 'corpus-entry-points'}))
    cases.append(
        # 17. a group with a zero fraction: the scalar leaves that member at 0 although it held material
        Case([W, 'group 0 Solvent Ethanol,Methanol 1,0', 'group 0 S2 Water,Methanol,Ethanol 0,3,1', 'cix 0', 'mix 0 lg', 'set 0 * v:1,2,4',
              'set 0 Solvent s:8', 'get 0 *', 'get 0 Solvent', 'set 1 l v:1,2,4', 'set 1 (l,Solvent) s:8', 'get 1 l', 'set 1 g v:1,2,4',
              'set 1 (*,S2) s:16', 'get 1 (*,*)', 'set 0 * v:1,2,4', 'setm 0 Solvent s:8', 'get 0 *', 'set 0 (Water,S2) v:3,16', 'get 0 *',
              'six 0', 'set 2 * s:1/2', 'set 2 Solvent s:1/4', 'get 2 *'], {'kind': 'corpus-zero-fraction'}))
    cases.append(
        # 18. a copy taken after lookups, then the names change: the copy must not answer from a private memo
        Case([W, 'group 0 G Methanol,Ethanol 1,3', 'mix 0 lg', 'set 0 l v:1,2,4', 'set 0 g v:8,16,32', 'get 0 G', 'get 0 (l,G)', 'get 0 (*,(Water,G))',
              'get 0 l', 'copyix 0', 'copyix 1', 'group 0 G Water,Methanol -', 'get 1 G', 'get 1 (l,G)', 'get 2 (*,(Water,G))', 'get 0 (l,G)',
              'set 1 (l,G) s:8', 'get 1 l', 'get 0 l'] + (['alias 0 Ethanol l', 'get 1 l', 'get 2 l', 'get 0 l'] if GEN_PHASE_LETTER_ALIAS else []),
             {'kind': 'corpus-copy-redefine'}) if GEN_REDEFINE_GROUPS else Case([W], {'kind': 'corpus-copy-redefine'}))
    cases.append(
        # 19. read-only queries between the definition of a group (members out of chemical order) and a scalar written to it
        Case([W, 'group 0 G Methanol,Water,Ethanol 1,2,5', 'cix 0', 'mix 0 lg', 'set 0 * v:1,2,4', 'query 0 members G', 'query 0 groups',
              'query 0 aliases Water', 'query 0 contains G', 'query 0 contains Nope', 'query 0 available (Water,G)', 'set 0 G s:8', 'get 0 *',
              'query 0 members G', 'set 1 (l,G) s:16', 'get 1 l', 'setm 0 G s:8', 'get 0 *', 'get 0 (Methanol,G)'], {'kind': 'corpus-queries'}))
    if GEN_ALIASED_MASS_VALUE:
        cases.append(Case([W, 'cix 0', 'mix 0 lg', 'set 0 * v:1,2,4', 'setm 0 * r:0.0', 'get 0 *', 'set 1 l v:1,2,4', 'setm 1 l r:1.1', 'get 1 l',
                           'setm 1 (g,*) r:1.1', 'get 1 (*,*)'], {'kind': 'corpus-mass-alias'}))
    if GEN_GROUP_CLOBBER:
        cases.append(Case([W, 'group 0 G Methanol,Ethanol -', 'cix 0', 'set 0 * v:1,2,4', 'get 0 Water', 'group 0 Water Ethanol,Methanol -',
                           'get 0 Water', 'group 0 size Water -', 'group 0 H2O Ethanol -', 'get 0 H2O', 'group 0 G Water -', 'get 0 G'],
                          {'kind': 'corpus-clobber'}))
    drop = set()
    if not GEN_PHASE_ELLIPSIS: drop.add('corpus-phase-ellipsis')
    if not GEN_REDEFINE_GROUPS: drop.add('corpus-redefine')
    if not GEN_PHASE_LETTER_ALIAS: drop.add('corpus-phase-alias')
    return [c for c in cases if c.meta['kind'] not in drop]
