"""
C04 — a vapour–liquid flash honours its specifications and the equilibrium conditions.

Adapter: real `MultiStream.vle(...)` calls (thermosteam/equilibrium/vle.py) over generated feeds,
specification pairs and property packages.  The iteration `xVlogK_iter` / `xVlogK_iter_2n`,
`VLE._solve_v`, `VLE._setup`, `VLE.set_thermal_condition`, `DewPoint.solve_Px` and
`BubblePoint.solve_Py` are wrapped at run time (no source edits) so that every step of the last
fixed-point solve travels to the Lean driver with the values the property package really returned
(`Psat`, `γ`, `φ`, `pcf`) and the driver recomputes the step, the exit test, the write-back and an
independent Rachford–Rice solve.  Oracle (real objects only): specification residuals,
iso-fugacity through `LiquidFugacities`/`GasFugacities`, phase boundary against bubble/dew
pressure, ideal package against an independent Raoult Rachford–Rice bisection, k·feed → k·products.
Lean model: lean/ThermoVerif/Model/Flash.lean.
"""
from __future__ import annotations
import math, random, warnings
import numpy as np
from harness.core import Case, ImplResult, fbits, from_fbits

PID = 'C04'
LEAN_MODULES = ['ThermoVerif.Props.C04']
RULE = ('a case is one feed (1–5 volatile chemicals of one family: C1–C4 alcohols, C6–C8 alkanes/aromatics, or a '
        'water/organics set under the ideal package; every mole fraction ≥ 0.02; optionally ≤5 % non-condensable O2 '
        'and/or non-volatile solute) followed by 3–8 flashes on the same stream with specification pairs drawn from '
        'TP, TV, TH, TS, PV, PH, PS, Tx, Ty, Px, Py, interleaved with in-place rescalings of the same stream followed by the same '
        'flash again (k incl. powers of two), over 9 packages two pairs of which reuse the ID `Solvent` for different chemicals (T 280–450 K, P 2e4–1e6 Pa, V in (0.02, 0.98), H/S of a state '
        'with V in (0.02, 0.98)), later flashes re-specify the state just reached through another pair, plus a '
        'k·feed replay; non-trivial = at least one flash ended with two phases after a fixed-point solve; '
        'distinct = distinct (package, chemicals, rounded composition, pair sequence)')
ASSUMPTIONS = [
    'Psat, γ, φ, pcf are parameters: the values recorded from the real property package on each iteration',
    'the Rachford–Rice solve inside xVlogK_iter (flexsolve IQ interpolation) is a parameter, monitored per step: '
    'residual of the Rachford–Rice equation ≤ 1e-7 relative and agreement with an independent bisection ≤ 1e-6',
    'convergence of flexsolve.aitken / IQ_interpolation is not proved: exit through the K_tol test is observed per solve '
    '(tag nonconv otherwise); the V-specification clause is checked by bracketing on the real code',
    'H and S are those of thermosteam\'s mixture model (ideal mixing rules); linearity of H in the moved fraction is '
    'what makes the final correction of set_PH exact',
    'vapour fraction V of a specification = vaporised fraction of the chemicals in equilibrium (the doctests pin this)',
    'float tolerance of the step comparison 1e-9 relative (libm exp/log vs numpy)',
    '`call` line: the model computes T and P only where they come from the specification, Psat(T), Tsat(P) or the previous '
    'state; a field delivered by a numerical solve is answered NaN (= unconstrained) and not compared',
    '`scale` line: the homogeneity of write-back and set-up is checked by the driver on its own definitions (a driver '
    'self-check); what ties it to the code is only z = mol/F_mol and F_mol against the recorded values — the scaling clause on '
    'the real code is decided by the oracle (k·feed replicas and rescale-and-flash-again histories)',
    'clauses decided by correspondence + oracle, not by proof: V met within the solver resolution; phase boundary and '
    'iso-fugacity with activity coefficients / Poynting factors at the returned state; H and S reproduction on the '
    'multi-component paths (the lever-rule theorem covers one chemical, where H and S are linear in the split)',
    'oracle scope = the property\'s quantifier: results outside 280–450 K / 2e4–1e6 Pa are only checked for T/P written; '
    'V, phase-boundary and ideal-vs-RR clauses are not judged with inert material present (T,P flashes with gas only are); '
    'S checks skip Benzene and Cyclohexane (their liquid entropy in `thermo` is quantised in 2–8 J/mol/K steps)',
    'a flash that RAISES on a specification inside the generated ranges is an oracle failure (`raised:<pair>:<exc>`; `refused:<pair>` '
    'for NotImplementedError on an H/S target taken from a two-phase state); exempt: infeasible x/y compositions, H/S targets from '
    'one-phase states, S targets with Benzene/Cyclohexane, and refusals that meet the gas-above-pressure-bracket predicate (listed)',
    'model lines cover the LAST fixed-point solve of each call (at most its last 60 iterations), not every solve of the outer '
    'T/P iteration',
    'known-finding predicates: aitken-oscillation is computed from the recorded iterates alone; the bracket predicates use '
    'BubblePoint.solve_Py/solve_Ty of the anchored code plus a probe T,P flash; stale/fallback splits are recognised by re-flashing the '
    'result; out-of-iterations by ≥ 21 objective evaluations (literal)',
    'not exercised: non-ideal Phi, method=\'shgo\', reactive flashes (gas_conversion / liquid_conversion)',
]
TRUSTED = ['Lean 4.33 kernel', 'harness/props/c04.py + Driver/C04.lean', 'generator reach (see histogram)',
           'thermo/chemicals correlations (Psat, Tsat, Dortmund-UNIFAC γ), flexsolve']

OUT_OF_ITER = 21      # objective evaluations of a call whose IQ_interpolation used all of its documented maxiter = 20 iterations (a
                      # literal on purpose: the code's own constant must not move the known-finding predicate)
NSOLVE = [0]          # number of VLE._solve_v calls in this process (to see a solver run out of iterations)
S_NOISE = {}          # id(chemical) -> numerical noise of its liquid entropy, kJ/K/kg


def s_noise(chem):
    """largest second difference of S('l', T) over 0.04 K steps at 60 temperatures (a smooth S contributes < 1e-9)"""
    worst = 0.
    for T in np.linspace(285., 445., 60):
        try:
            v = [chem.S('l', T + d, 101325.) for d in (-0.04, 0., 0.04)]
            worst = max(worst, abs(v[0] - 2 * v[1] + v[2]))
        except Exception:
            pass
    return worst / float(chem.MW)


tmo = None
vm = None
THERMOS = []          # (thermo, volatile IDs, kind) ; kind in 'family' | 'ideal'
EPS = 1e-16
# liquid entropies of these chemicals are quantised in steps of 2–8 J/mol/K and non-monotone in T (cancellation in the
# HEOS_FIT heat-capacity integral of the `thermo` package): an S specification is ill-posed for them (C07's territory)
S_NOISY = {'Benzene', 'Cyclohexane'}
K_TOL = 1e-6
REC = None            # active recorder (dict) while a vle call runs


# --------------------------------------------------------------------------
# set-up: packages and recording wrappers
# --------------------------------------------------------------------------
FAMILIES = [
    ('alc', ['Methanol', 'Ethanol', '1-Propanol', '1-Butanol'], 'family'),
    ('hc', ['Hexane', 'Heptane', 'Octane', 'Benzene', 'Toluene'], 'family'),
    ('mixI', ['Water', 'Ethanol', 'Acetone', 'Hexane', 'Toluene'], 'ideal'),
    ('alcI', ['Methanol', 'Ethanol', '1-Propanol', '1-Butanol'], 'ideal'),
    ('hcI', ['Hexane', 'Heptane', 'Octane', 'Benzene', 'Toluene'], 'ideal'),
    # two packages (×2 kinds) whose chemical 'Solvent' is a DIFFERENT chemical under the same ID: anything the library
    # memoises per ID (instead of per Chemical object / per package) shows when they are flashed one after the other
    ('solvA', [('Solvent', 'Hexane'), 'Heptane'], 'family'),
    ('solvB', [('Solvent', 'Octane'), 'Heptane'], 'family'),
    ('solvAI', [('Solvent', 'Hexane'), 'Heptane'], 'ideal'),
    ('solvBI', [('Solvent', 'Octane'), 'Heptane'], 'ideal'),
    # activity coefficients AND real Poynting correction factors (K = pcf·Psat·γ/(φ·P), pcf depends on the pressure)
    ('alcP', ['Methanol', 'Ethanol', '1-Propanol', '1-Butanol'], 'poynting'),
    ('hcP', ['Hexane', 'Heptane', 'Octane', 'Toluene'], 'poynting'),
    # the solute keeps the library's DEFAULT N_solutes (0): it does not count as a component of the equilibrium (one volatile
    # chemical + solute takes the single-chemical setters) but it carries enthalpy and entropy
    ('alcS0', ['Methanol', 'Ethanol', '1-Propanol', '1-Butanol'], 'family-s0'),
    ('mixIS0', ['Water', 'Ethanol', 'Acetone', 'Hexane', 'Toluene'], 'ideal-s0'),
]
S0_PACKAGES = (11, 12)


def setup():
    global tmo, vm
    import thermosteam as tmo_
    from thermosteam.equilibrium import vle as vm_
    from thermosteam.equilibrium.dew_point import DewPoint
    from thermosteam.equilibrium.bubble_point import BubblePoint
    tmo, vm = tmo_, vm_
    warnings.simplefilter('ignore')
    np.seterr(all='ignore')
    THERMOS.clear()
    for name, ids, kind in FAMILIES:
        O2 = tmo.Chemical('O2', phase='g')
        G = tmo.Chemical('Glucose', phase='l', default=True)
        if kind.endswith('-s0'): kind = kind[:-3]
        else: G.N_solutes = 1      # a solute that dilutes the liquid (the default 0 makes it invisible to the equilibrium)
        objs = [tmo.Chemical(i[0], search_ID=i[1]) if isinstance(i, tuple) else i for i in ids]
        ids = [i[0] if isinstance(i, tuple) else i for i in ids]
        chems = tmo.Chemicals(objs + [O2, G], cache=True)
        if kind == 'ideal':
            th = tmo.Thermo(chems, Gamma=tmo.equilibrium.IdealActivityCoefficients, cache=False)
        elif kind == 'poynting':
            th = tmo.Thermo(chems, PCF=tmo.equilibrium.IdealGasPoyintingCorrectionFactors, cache=False)
            kind = 'family'
        else:
            th = tmo.Thermo(chems, cache=False)
        THERMOS.append((th, ids, kind, name))
    for th_, ids_, _, _ in THERMOS:
        for c in th_.chemicals.tuple:
            if c.ID in ids_ and id(c) not in S_NOISE: S_NOISE[id(c)] = s_noise(c)
    tmo.settings.set_thermo(THERMOS[0][0])
    global K_TOL
    K_TOL = float(vm.VLE.K_tol)       # the exit test is the code's own

    if getattr(vm.VLE._solve_v, '_verif', False): return
    orig_iter, orig_iter2 = vm.xVlogK_iter, vm.xVlogK_iter_2n

    def mk_rec(f_gamma, f_phi, n, st):
        def fg(x, T, *a):
            g = f_gamma(x, T, *a)
            st['xh'] = np.array(x, float); st['g'] = np.array(g, float) * np.ones(n)
            return g
        def fp(y, T, P):
            p = f_phi(y, T, P)
            st['yh'] = np.array(y, float); st['p'] = np.array(p, float) * np.ones(n)
            return p
        return fg, fp

    def w_iter(xVlogK, c, T, P, z, zl, zh, f_gamma, gargs, f_phi, n, gc, lc):
        if REC is None: return orig_iter(xVlogK, c, T, P, z, zl, zh, f_gamma, gargs, f_phi, n, gc, lc)
        st = {}
        fg, fp = mk_rec(f_gamma, f_phi, n, st)
        out = orig_iter(xVlogK, c, T, P, z, zl, zh, fg, gargs, fp, n, gc, lc)
        st.update(inp=np.array(xVlogK), out=np.array(out), c=np.array(c, float), z=np.array(z, float),
                  zl=float(zl), zh=float(zh), two=False)
        REC['steps'].append(st)
        return out

    def w_iter2(xVlogK, c, T, P, z, f_gamma, gargs, f_phi, n, gc, lc):
        if REC is None: return orig_iter2(xVlogK, c, T, P, z, f_gamma, gargs, f_phi, n, gc, lc)
        st = {}
        fg, fp = mk_rec(f_gamma, f_phi, n, st)
        out = orig_iter2(xVlogK, c, T, P, z, fg, gargs, fp, n, gc, lc)
        st.update(inp=np.array(xVlogK), out=np.array(out), c=np.array(c, float), z=np.array(z, float),
                  zl=0., zh=0., two=True)
        REC['steps'].append(st)
        return out

    vm.xVlogK_iter, vm.xVlogK_iter_2n = w_iter, w_iter2

    orig_solve = vm.VLE._solve_v
    def w_solve(self, T, P, gas_conversion=None, liquid_conversion=None):
        NSOLVE[0] += 1
        if REC is None: return orig_solve(self, T, P, gas_conversion, liquid_conversion)
        REC['steps'] = []
        REC['nsolve'] += 1
        v = orig_solve(self, T, P, gas_conversion, liquid_conversion)
        REC['last'] = dict(T=T, P=P, v=np.array(v, float), V=float(self._V), K=np.array(self._K, float),
                           F=float(self._F_mol), mol=np.array(self._mol_vle, float))
        return v
    w_solve._verif = True
    vm.VLE._solve_v = w_solve

    # numba sometimes fails with ReferenceError("underlying object has vanished") while SAVING a freshly compiled
    # specialisation to its on-disk cache; the compiled function is in memory afterwards, so the call is simply repeated
    # (auxiliary flashes of the adapter: reference states, brackets, replicas; the flash under test has its own retry)
    orig_call = vm.VLE.__call__
    def w_call(self, **kw):
        for attempt in range(3):
            try:
                return orig_call(self, **kw)
            except ReferenceError:
                if attempt == 2 or REC is not None: raise
    vm.VLE.__call__ = w_call

    orig_setup = vm.VLE._setup
    def w_setup(self, gas_conversion=None, liquid_conversion=None):
        try:
            return orig_setup(self, gas_conversion, liquid_conversion)
        except vm.NoEquilibrium:
            if REC is not None: REC['noeq'] = True
            raise
    vm.VLE._setup = w_setup

    orig_tp = vm.VLE.set_thermal_condition
    def w_tp(self, T, P, gas_conversion=None, liquid_conversion=None):
        if REC is not None: REC['in_tp'] = True
        try:
            return orig_tp(self, T, P, gas_conversion, liquid_conversion)
        finally:
            if REC is not None: REC['in_tp'] = False
    vm.VLE.set_thermal_condition = w_tp

    orig_px = DewPoint.solve_Px
    def w_px(self, z, T, gas_conversion=None):
        r = orig_px(self, z, T, gas_conversion)
        if REC is not None and REC.get('in_tp'): REC['Pdew'] = float(r[0])
        return r
    DewPoint.solve_Px = w_px
    orig_py = BubblePoint.solve_Py
    def w_py(self, z, T, liquid_conversion=None):
        r = orig_py(self, z, T, liquid_conversion)
        if REC is not None and REC.get('in_tp'): REC['Pbub'] = float(r[0])
        return r
    BubblePoint.solve_Py = w_py


def budget(tier):
    return {'quick': dict(seconds=75, cases=640, shrink_s=25, search_s=5),
            'thorough': dict(seconds=540, cases=8000, shrink_s=60, search_s=10)}[tier]


# --------------------------------------------------------------------------
# helpers on real objects
# --------------------------------------------------------------------------
def arr(x):
    return np.asarray(x.to_array() if hasattr(x, 'to_array') else x, float)


def vec(v):
    return ','.join(fbits(float(a)) for a in v)


def fl(x):
    return fbits(float(x))


def phase_arrays(s):
    """(liquid, vapour) flow arrays of a MultiStream, or of a single-phase Stream (before its first `.vle` call turns it
    into a MultiStream)"""
    if isinstance(s, tmo.MultiStream):
        return arr(s.imol['l']), arr(s.imol['g'])
    d = arr(s.imol.data); z = np.zeros_like(d)
    return (d.copy(), z) if s.phase == 'l' else (z, d.copy())


def vle_split(s):
    """(liquid, vapour) flows of the chemicals in equilibrium, light and heavy totals, index"""
    chems = s.chemicals
    data_l, data_g = phase_arrays(s)
    tot = data_l + data_g
    nz = set(int(i) for i in np.nonzero(tot)[0])
    idx = list(chems.get_vle_indices(nz))
    li, hi = list(chems._light_indices), list(chems._heavy_indices)
    Fl = float(tot[li].sum()) if li else 0.
    Fh = float((tot[hi] * chems._heavy_solutes).sum()) if hi else 0.
    return data_l[idx], data_g[idx], Fl, Fh, idx


def Vfrac(s):
    l, g, *_ = vle_split(s)
    t = l.sum() + g.sum()
    return float(g.sum() / t) if t > 0 else float('nan')


def build_stream(th, flows_l, flows_g, T, P, extra=None):
    kw = {}
    if flows_l: kw['l'] = flows_l
    if flows_g: kw['g'] = flows_g
    for ph, fl_ in (extra or {}).items():
        if fl_: kw[ph] = fl_
    return tmo.MultiStream(None, T=T, P=P, thermo=th, **kw)


class Snap(tuple):
    """(liquid, vapour, T, P) of a stream plus, in `.extra`, the flows it holds in any OTHER phase ('s', 'L', …): material
    there takes no part in the vapour–liquid equilibrium but belongs to the stream's H, S and mass"""
    extra = {}


def extra_phases(s):
    if not isinstance(s, tmo.MultiStream): return {}
    return {ph: arr(s.imol[ph]).copy() for ph in s.phases if ph not in ('g', 'l') and arr(s.imol[ph]).any()}


def snapshot(s):
    l_, g_ = phase_arrays(s)
    sn = Snap((l_.copy(), g_.copy(), float(s.T), float(s.P)))
    sn.extra = extra_phases(s)
    return sn


def restore(th, snap, k=1.0, extra=None):
    l, g, T, P = snap
    extra = extra if extra is not None else getattr(snap, 'extra', {})
    s = tmo.MultiStream(None, T=T, P=P, phases=tuple(['g', 'l'] + sorted(extra)), thermo=th)
    s.imol['l'] = k * l
    s.imol['g'] = k * g
    for ph, a_ in extra.items(): s.imol[ph] = k * a_
    return s


def rr_python(z, K, zl, zh):
    """independent Rachford–Rice (bisection on the strictly decreasing objective)"""
    z = np.asarray(z, float); K = np.asarray(K, float)
    def f(V):
        r = (z * (K - 1) / (1 + V * (K - 1))).sum()
        if zl > 0: r += zl / V
        if zh > 0: r -= zh / (1 - V)
        return r
    lo = 1e-300 if zl > 0 else 0.
    hi = 1 - 1e-16 if zh > 0 else 1.
    if f(lo) <= 0: return 0.
    if f(hi) >= 0: return 1.
    for _ in range(200):
        mid = (lo + hi) / 2
        if f(mid) > 0: lo = mid
        else: hi = mid
    return (lo + hi) / 2


class Skip(Exception):
    pass


# --------------------------------------------------------------------------
# one case
# --------------------------------------------------------------------------
PAIR_KW = {'TP': ('T', 'P'), 'TV': ('T', 'V'), 'TH': ('T', 'H'), 'TS': ('T', 'S'), 'Tx': ('T', 'x'), 'Ty': ('T', 'y'),
           'PV': ('P', 'V'), 'PH': ('P', 'H'), 'PS': ('P', 'S'), 'Px': ('P', 'x'), 'Py': ('P', 'y')}


class Run:
    def __init__(self):
        self.model_in, self.outs, self.failures, self.tags = [], [], [], []
        self.s = None; self.th = None; self.kind = None; self.ids = None
        self.last = None          # (snapshot before, pair, resolved a, resolved b) of the last vle op
        self.two_phase_solves = 0
        self.hist = []            # resolved (pair, a, b, total flow) of every flash of this stream, in order
        self.hist_products = []   # … and what it produced
        self.last_sfx = set()
        self.prev_sfx = set()
        self.last_hs_ok = True
        self.ref_two = None
        self.last_products = None
        self.key = []

    def emit(self, line, ans):
        self.model_in.append(line); self.outs.append(ans)

    def fail(self, sig, what):
        self.failures.append({'signature': sig, 'op_index': len(self.model_in) - 1, 'what': what})

    # ---- feed -----------------------------------------------------------
    def feed(self, t):
        ti = int(t[1]); T0, P0 = float(t[2]), float(t[3])
        self.th, self.ids, self.kind, self.name = THERMOS[ti]
        fl_, fg_, fx_ = [], [], {}
        for tok in t[4:]:
            ph, rest = tok.split(':', 1)
            for it in rest.split(','):
                if not it: continue
                cid, val = it.split('=')
                if ph in ('l', 'g'): (fl_ if ph == 'l' else fg_).append((cid, float(val)))
                else: fx_.setdefault(ph, []).append((cid, float(val)))
        if t[0] == 'sfeed':
            # the other public entry point: a single-phase `Stream` whose `.vle` turns it into a MultiStream in place
            self.s = tmo.Stream(None, T=T0, P=P0, phase='l', thermo=self.th)
            for c, v in fl_ + fg_: self.s.imol[c] += v
            self.tags.append('entry:Stream.vle')
        else:
            self.s = build_stream(self.th, fl_, fg_, T0, P0, fx_)
            if fx_: self.tags.append('extra-phase:' + ''.join(sorted(fx_)))
        self.key.append((ti, tuple(sorted((c, round(v, 3)) for c, v in fl_ + fg_))))

    # ---- resolve a specification token -----------------------------------
    def resolve(self, pair, ta, tb):
        s = self.s
        ka, kb = PAIR_KW[pair]
        def cur(k):
            if k == 'T': return float(s.T)
            if k == 'P': return float(s.P)
            if k == 'V': return Vfrac(s)
            if k == 'H': return float(s.H)
            if k == 'S': return float(s.S)
            l, g, *_ = vle_split(s)
            if len(l) != 2 or l.sum() <= 0 or g.sum() <= 0: raise Skip('x/y need a two-phase binary')
            return (l / l.sum()) if k == 'x' else (g / g.sum())
        self.ref_P = float(s.P)
        self.ref_two = None
        def two_phase(st):
            l_, g_, *_ = vle_split(st)
            tot_ = l_.sum() + g_.sum()
            return bool(tot_ > 0 and l_.sum() > 1e-6 * tot_ and g_.sum() > 1e-6 * tot_)     # strictly between the one-phase values
        if ta == '@': a = cur(ka)
        elif ta[0] == '+': a = cur(ka) + float(ta[1:])
        elif ta[0] == '*': a = cur(ka) * float(ta[1:])
        else: a = float(ta)
        if tb == '@':
            b = cur(kb)
            if kb in ('H', 'S'): self.ref_two = two_phase(s)
        elif tb[0] == '*' and kb in ('P', 'V', 'H', 'S'):
            b = cur(kb) * float(tb[1:])
        elif tb[0] == 'p' and kb == 'P':
            # a pressure a few Pa from the phase boundary at the specified T: `p<d>` = Psat(T) + d for one volatile chemical,
            # `pb<d>` / `pd<d>` = bubble / dew pressure + d for several (from the package's own Psat, γ, Poynting objects)
            l, g, Fl, Fh, idx = vle_split(s)
            chs = [self.th.chemicals.tuple[i] for i in idx]
            if not chs: raise Skip('nothing volatile')
            if len(chs) == 1 and tb[1] not in 'bd':
                b = float(chs[0].Psat(a)) + float(tb[1:])
            elif len(chs) > 1 and tb[1] in 'bd':
                zz = (l + g) / (l + g).sum()
                Ps = np.array([c.Psat(a) for c in chs], float)
                Pb, Pd = own_bubble_dew(self.th, chs, zz, Ps, a)
                b = (Pb if tb[1] == 'b' else Pd) + float(tb[2:])
            else:
                raise Skip('token does not fit the number of chemicals')
            self.tags.append('spec:near-boundary')
        elif tb[0] in 'bL' and ka == 'P' and kb in ('H', 'S'):
            # H or S of the equilibrium state at the specified P and (bubble temperature of the condensable part + dT):
            # with non-condensable gas present and dT < 0 this is the region of small vaporised fractions, where the
            # gas alone keeps a vapour phase alive
            c = restore(self.th, snapshot(s))
            l, g, Fl, Fh, idx = vle_split(c)
            if len(idx) == 0: raise Skip('nothing volatile')
            chs = [self.th.chemicals.tuple[i] for i in idx]
            zz = (l + g) / (l + g).sum()
            bp = tmo.equilibrium.BubblePoint(chs, self.th)
            Tb = float(bp.solve_Ty(zz, a)[0])
            if tb[0] == 'L':
                # relative to the lower end of the temperature bracket set_PH / set_PS use when gas is present
                # (0.9·T_bubble + 0.1·Tmin of the package's VLE domain): boundary values of that bracket
                Tb = 0.9 * Tb + 0.1 * float(bp.Tmin)
                self.tags.append('spec:bracket-end%+d' % round(float(tb[1:])))
            else:
                self.tags.append('spec:bubbleT%+d' % (5 * round(float(tb[1:]) / 5)))
            c.vle(T=Tb + float(tb[1:]), P=a)
            b = float(c.H if kb == 'H' else c.S)
            self.ref_P = float(c.P)
            self.ref_two = two_phase(c)
        elif tb.startswith('v'):
            # H or S of the state with vaporised fraction `frac` at the specified T or P
            frac = float(tb[1:])
            c = restore(self.th, snapshot(s))
            l, g, Fl, Fh, idx = vle_split(c)
            single = len(idx) == 1 and Fl == 0 and Fh == 0
            if ka == 'P':
                c.vle(P=a, V=frac)
            elif single:
                chem = self.th.chemicals.tuple[idx[0]]
                c.vle(P=float(chem.Psat(a)), V=frac); c.T = a
            else:
                c.vle(T=a, V=frac)
            b = float(c.H if kb == 'H' else c.S)
            self.ref_P = float(c.P)
            self.ref_two = two_phase(c)
        else:
            b = float(tb)
        if isinstance(b, float) and not math.isfinite(b): raise Skip('non-finite specification')
        if isinstance(b, float) and kb == 'V' and not (0. <= b <= 1.): raise Skip('V out of [0,1]')
        return a, b

    # ---- one flash ---------------------------------------------------------
    def vle(self, t):
        global REC
        pair, ta, tb = t[1], t[2], t[3]
        s, th = self.s, self.th
        try:
            a, b = self.resolve(pair, ta, tb)
        except Skip:
            self.tags.append('skip-unresolvable'); return
        except Exception as e:
            self.tags.append('skip-resolve-' + type(e).__name__)
            self.fail(f'raised:reference-state:{type(e).__name__}', f'computing the reference state of `{" ".join(t)}` (real flashes of a copy of the stream) raised {type(e).__name__}: {e}')
            return
        ka, kb = PAIR_KW[pair]
        if getattr(self, '_inherit_hs_ok', None) is False: self.ref_two = False
        self.last_hs_ok = self.ref_two is not False
        snap = snapshot(s)
        T0, P0 = float(s.T), float(s.P)
        l0, g0, Fl, Fh, idx = vle_split(s)
        mol = l0 + g0
        n = len(idx)
        F = float(mol.sum() + Fl + Fh)
        ncase = 'noeq' if (n == 0 or mol.sum() == 0) else ('one' if n + (Fl > 0) + (Fh > 0) == 1 else 'many')
        chem1 = th.chemicals.tuple[idx[0]] if n == 1 else None
        REC = dict(steps=[], nsolve=0, noeq=False, in_tp=False, Pdew=None, Pbub=None, last=None)
        rec = REC
        err = None
        try:
            for attempt in range(3):
                try:
                    s.vle(**{ka: a, kb: b})
                    break
                except ReferenceError:
                    # numba: "underlying object has vanished" while SAVING a freshly compiled specialisation to its
                    # on-disk cache; the compiled function is in memory afterwards.  Put the stream back and retry.
                    if attempt == 2: raise
                    if not isinstance(s, tmo.MultiStream): s.phases = ('g', 'l')
                    s.imol['l'] = snap[0]; s.imol['g'] = snap[1]; s.T = snap[2]; s.P = snap[3]
                    REC.update(steps=[], nsolve=0, noeq=False, in_tp=False, Pdew=None, Pbub=None, last=None)
        except (vm.NoEquilibrium,) as e:
            err = 'NoEquilibrium'
        except NotImplementedError:
            err = 'NotImplemented'
        except AssertionError:
            err = 'Assertion'
        except Exception as e:
            err = type(e).__name__
        finally:
            REC = None
        self.last_out_of_iter = rec['nsolve'] >= OUT_OF_ITER
        self.prev_sfx = getattr(self, 'last_sfx', set())
        self.last_sfx = set()
        self.last = (snap, pair, a, b)
        if not getattr(self, '_in_revisit', False) and kb not in ('x', 'y'):
            self.hist.append((pair, a, b, float((snap[0] + snap[1]).sum()), self.last_hs_ok))
        self.last_products = None if err is not None else (arr(s.imol['l']).copy(), arr(s.imol['g']).copy(), float(s.T), float(s.P))
        if not getattr(self, '_in_revisit', False) and kb not in ('x', 'y'):
            self.hist_products.append(self.last_products)
        self.key.append(pair)
        self.tags += [f'pair:{pair}', f'n:{ncase}', f'pkg:{self.name}']
        T1, P1 = float(s.T), float(s.P)
        l1, g1, *_ = vle_split(s)
        two = bool(l1.sum() > 0 and g1.sum() > 0)
        in_range = 280. <= T1 <= 450. and 2e4 <= P1 <= 1e6
        if not in_range: self.tags.append('out-of-range')

        # ---------------- line 1: dispatch ---------------------------------
        psat = float(chem1.Psat(a)) if (chem1 is not None and ka == 'T') else 0.
        tsat = safe_tsat(chem1, a) if (chem1 is not None and ka == "P") else 0.
        sol = float('nan')      # the model is NOT told what the solver delivered: it answers NaN (= unconstrained) for that field
        refusal_sfx = ''
        if err == 'NotImplemented' and self.ref_two is True and Fl > 0 and ncase == 'many':
            # with gas, set_TH / set_TS compare the target with the all-liquid stream at TWICE the bubble pressure; a
            # target whose equilibrium pressure lies above that bracket end can fall below that comparison value
            try:
                chs_ = [th.chemicals.tuple[i] for i in idx]
                pb_ = float(tmo.equilibrium.BubblePoint(chs_, th).solve_Py(mol / F, a)[0])
                c_ = restore(th, snap); c_.vle(T=a, P=2 * pb_)
                if float(c_.H if kb == 'H' else c_.S) > b: refusal_sfx = ':gas-above-pressure-bracket'
            except Exception:
                pass
        two_flag = two
        if pair in ('TH', 'TS'):
            # from the REFERENCE state of the target where it is known (a target taken from a state with both phases
            # present is inside the range in which set_TH / set_TS must answer), otherwise from the outcome
            if self.ref_two is True and not refusal_sfx: two_flag = True      # (a refusal of the listed gas-bracket family is mirrored)
            elif err == 'NotImplemented': two_flag = False
            elif err is None: two_flag = True
        elif err == 'NotImplemented': two_flag = False
        line = f'call {pair} {ncase} {int(two_flag)} {fl(T0)} {fl(P0)} {fl(a)} {fl(b if isinstance(b, float) else 0.)} {fl(psat)} {fl(tsat)} {fl(sol)}'
        if err is None:
            self.emit(line, f'T={fl(T1)} P={fl(P1)}')
        elif err in ('NoEquilibrium', 'NotImplemented', 'Assertion'):
            self.emit(line, 'err=' + err)
            self.tags.append('err:' + err)
            if err == 'NotImplemented' and self.ref_two is True and ncase != 'noeq':
                # "cannot solve for pressure yet" although the target is the H / S of a state with both phases present
                sfx = refusal_sfx
                self.fail(family_sig(f'refused:{pair}:{ncase}', ka, sfx), f'vle({ka}={a!r}, {kb}={b!r}) raised NotImplementedError although the specified {kb} is that of a two-phase state at this {ka}')
            return
        else:
            # any other exception on a specification inside the generated (valid) ranges: the call did not honour it
            self.tags.append('raised:' + err)
            # (a liquid / vapour composition that cannot bracket the feed at the shifted T or P is legitimately refused)
            noisy_S = kb == 'S' and any(th.chemicals.tuple[i].ID in S_NOISY for i in idx)     # S(T) of these is not even monotone
            if ncase != 'noeq' and not (kb in ('x', 'y') and err == 'InfeasibleRegion') and not (kb in ('H', 'S') and self.ref_two is False) and not noisy_S:
                self.fail(f'raised:{pair}:{err}', f'vle({ka}={a!r}, {kb}={b if isinstance(b, float) else np.asarray(b)!r}) on {ncase} volatile chemical(s) raised {err}')
            return

        # ---------------- oracle A: the specified T / P are on the stream ---------
        nfail0 = len(self.failures)
        if ka == 'T' and T1 != a:
            self.fail(f'spec-not-written:T:{pair}:{ncase}', f'vle({ka}={a!r}, {kb}=…) returned with stream.T = {T1!r} (T before the call {T0!r})')
        if ka == 'P' and P1 != a:
            self.fail(f'spec-not-written:P:{pair}:{ncase}', f'vle({ka}={a!r}, {kb}=…) returned with stream.P = {P1!r} (P before the call {P0!r})')
        if kb == 'P' and P1 != b:
            self.fail(f'spec-not-written:P:{pair}:{ncase}', f'vle(T={a!r}, P={b!r}) returned with stream.P = {P1!r}')
        spec_ok = len(self.failures) == nfail0

        # ---------------- single chemical: phase decision --------------------------
        if ncase == 'one' and pair == 'TP':
            self.emit(f'chem {fl(a)} {fl(b)} {fl(chem1.Tc)} {fl(chem1.Psat(a))} {fl(mol[0])} {fl(l0[0])} {fl(g0[0])}',
                      f'l={fl(l1[0])} g={fl(g1[0])}')
            if in_range and a < chem1.Tc:
                ps = float(chem1.Psat(a))
                if b > ps * (1 + 1e-6) + 1e-2 and g1[0] != 0:
                    self.fail('phase-boundary:one:expected-liquid', f'single chemical at P={b} > Psat={ps}: vapour flow {g1[0]}')
                if b < ps * (1 - 1e-6) - 1e-2 and l1[0] != 0:
                    self.fail('phase-boundary:one:expected-vapour', f'single chemical at P={b} < Psat={ps}: liquid flow {l1[0]}')

        # ---------------- single chemical, H / S specified: the lever rule ---------------
        others_present = bool((snap[0] + snap[1]).sum() - mol.sum() > 0)
        # (S is not linear in the split when another species shares a phase with the chemical — entropy of mixing —, so the
        # lever rule is only the first guess there; H is linear under thermosteam's ideal mixing rules)
        if ncase == 'one' and kb in ('H', 'S') and two and err is None and (kb == 'H' or not others_present):
            # H (S) of the all-liquid and the all-vapour stream at the returned T, P, from the mixture model directly
            tot = snap[0] + snap[1]
            zero = np.zeros_like(tot)
            # only the chemical in equilibrium changes phase; everything else keeps the phase the flash gave it
            L1_, G1_ = arr(s.imol['l']).copy(), arr(s.imol['g']).copy()
            i0 = idx[0]; m0 = L1_[i0] + G1_[i0]
            Lb, Gb = L1_.copy(), G1_.copy(); Lb[i0], Gb[i0] = m0, 0.
            Ld, Gd = L1_.copy(), G1_.copy(); Ld[i0], Gd[i0] = 0., m0
            cl = restore(th, (Lb, Gb, T1, P1), extra=snap.extra); cg = restore(th, (Ld, Gd, T1, P1), extra=snap.extra)
            Xb = float(cl.H if kb == 'H' else cl.S); Xd = float(cg.H if kb == 'H' else cg.S)
            # (as fractions of the chemical's flow: the comparison is then independent of the scale of the feed)
            self.emit(f'lever {fl(b)} {fl(Xb)} {fl(Xd)} {fl(1.0)}', f'lv={fl(l1[0] / mol[0])} gv={fl(g1[0] / mol[0])}')
            self.tags.append('lever')

        # ---------------- TP branch line ------------------------------------------
        if pair == 'TP' and ncase == 'many' and rec['Pdew'] is not None:
            branch = 'solve' if rec['nsolve'] else ('allgas' if l1.sum() == 0 else 'allliq')
            pb = rec['Pbub'] if rec['Pbub'] is not None else float('inf')
            self.emit(f'tpb {fl(b)} {fl(rec["Pdew"])} {fl(pb)} {int(Fh > 0)} {int(Fl > 0)}', branch)
            self.tags.append('tp:' + branch)

        # ---------------- the last fixed-point solve -------------------------------
        steps = rec['steps']; last = rec['last']
        conv = None
        if last is not None and steps:
            nn = len(steps[0]['z'])
            for st in steps[-60:]:
                inp, out = st['inp'], st['out']
                self.emit('step %s %s %s %s %s %s | %s | %s | %s | %s | %s | %s' % (
                    '2n' if st['two'] else 'rr', fl(EPS), fl(st['zl']), fl(st['zh']), fl(inp[nn]), fl(out[nn]),
                    vec(st['z']), vec(st['c']), vec(inp[:nn]), vec(inp[nn + 1:]), vec(st['g']), vec(st['p'])),
                    'V=%s x=%s lnK=%s xh=%s yh=%s rr=ok vb=ok' % (fl(out[nn]), vec(out[:nn]), vec(out[nn + 1:]),
                                                                     vec(st['xh']), vec(st['yh'])))
            st = steps[-1]
            inp, out = st['inp'], st['out']
            Kret = last['K']
            d = np.abs(inp - out)
            same = last['V'] == out[nn] and bool((Kret == np.exp(out[nn + 1:])).all())
            conv = bool((d < K_TOL).all()) and same
            if conv:
                # the conclusion of exit_residual, observed on the real fugacity objects
                chems = [th.chemicals.tuple[i] for i in idx]
                Tl, Pl = last['T'], last['P']
                flq = tmo.equilibrium.LiquidFugacities(chems, th)(st['xh'], Tl, Pl)
                fgs = tmo.equilibrium.GasFugacities(chems, th)(st['yh'], Tl, Pl)
                S = float((st['xh'] * np.exp(inp[nn + 1:])).sum())
                ok = bool((np.abs(flq - S * fgs) <= 2 * K_TOL * S * fgs * (1 + 1e-9) + 1e-300).all())
                ans = 'conv bound=ok' if ok else 'conv bound=BAD'
                if not ok and in_range:
                    self.fail('exit-residual', f'solve exited through K_tol but |f_l − S f_g| exceeds 2·K_tol·S·f_g: {flq} vs {S * fgs}')
            else:
                ans = 'nonconv'
                self.tags.append('nonconv')
            self.emit('exit %s %s %s %s | %s | %s | %s | %s | %s | %s | %s | %s | %s | %s' % (
                fl(K_TOL), fl(inp[nn]), fl(out[nn]), fl(last['V']),
                vec(inp[:nn]), vec(inp[nn + 1:]), vec(out[:nn]), vec(out[nn + 1:]), vec(Kret),
                vec(st['c']), vec(st['g']), vec(st['p']), vec(st['xh']), vec(st['yh'])), ans)
            if conv:
                self.emit('wb %s %s %s | %s | %s | %s' % (fl(EPS), fl(last['F']), fl(last['V']), vec(out[:nn]),
                                                        vec(out[nn + 1:]), vec(last['mol'])), 'v=' + vec(last['v']))
                self.emit('scale %s %s %s %s %s %s | %s | %s | %s | %s' % (
                    fl(3.0), fl(EPS), fl(last['F']), fl(last['V']), fl(Fl), fl(Fh), vec(out[:nn]), vec(out[nn + 1:]),
                    vec(last['mol']), vec(st['z'])), 'scaled=ok')
            if two: self.two_phase_solves += 1

        if not in_range or ncase == 'noeq':
            return
        # flexsolve.aitken is called with checkiter=False, checkconvergence=False: when its own divergence test fires
        # or maxiter is reached it returns the current iterate silently; failures of the equilibrium clauses on such
        # a result carry this suffix
        unconv = ''
        if conv is False:
            # pinned to the documented cause: the recorded iterates of V oscillate (Aitken extrapolation overshooting:
            # ≥ 3 sign changes of V_out − V_in among the last 12 evaluations) after ≥ 12 evaluations;
            # any other way of ending unconverged gets a different, unlisted suffix
            nn_ = len(steps[0]['z'])
            dv = [float(st['out'][nn_] - st['inp'][nn_]) for st in steps[-12:]]
            flips = sum(1 for a_, b_ in zip(dv, dv[1:]) if a_ * b_ < 0)
            # (aitken's own divergence test can fire from its 7th iteration on, i.e. after ≥ 12 evaluations)
            unconv = ':unconverged-solve' if (flips >= 3 and len(steps) >= 12) else ':unconverged-solve:no-oscillation'
        inert = Fl > 0 or Fh > 0
        Fm = float(s.F_mass)

        # ---------------- oracle B: H / S reproduced --------------------------------
        def suffix():
            # VLE.set_TH / set_TS bracket the pressure between the dew pressure and TWICE the bubble pressure of the
            # condensable part when non-condensable gas is present; if the stream at (T, 2·P_bubble) still has more
            # enthalpy (entropy) than specified, the solution lies above the bracket and the solver cannot reach it
            if not (ka == 'T' and kb in ('H', 'S') and ncase == 'many' and (Fl > 0 or Fh > 0)): return ''
            if rec['nsolve'] >= OUT_OF_ITER:
                # with gas present H(P) (S(P)) at fixed T has a sharp knee where the condensable part starts to boil;
                # IQ_interpolation (maxiter=20, checkiter=False) used all its iterations shrinking the bracket from one
                # side and returned silently
                return ':inert:solver-out-of-iterations'
            if Fl == 0: return ''
            try:
                chs = [th.chemicals.tuple[i] for i in idx]
                pb = float(tmo.equilibrium.BubblePoint(chs, th).solve_Py(mol / F, a)[0])
                c = restore(th, snap)
                c.vle(T=a, P=2 * pb)
                if float(c.H if kb == 'H' else c.S) > b:
                    # … and the documented behaviour is that the call stops AT that bracket end
                    at_end = abs(P1 - 2 * pb) <= 3 * float(vm.VLE.P_tol) + 1e-6 * P1
                    return ':gas-above-pressure-bracket' if at_end else ':gas-above-pressure-bracket:not-at-bracket-end'
            except Exception:
                pass
            return ''
        # quantifier: "H/S between the all-liquid and all-vapour values" — the target is the H (S) of a state in which
        # the chemicals in equilibrium are present in both phases; targets taken from one-phase states are not judged
        hs_ok = getattr(self, 'ref_two', None) is not False
        self.last_hs_ok = hs_ok
        if kb in ('H', 'S') and not hs_ok: self.tags.append('HS-target-not-two-phase')
        if kb == 'H' and hs_ok:
            r = abs(float(s.H) - b) / Fm
            tol = 1e-6
            if ka == 'T' and r > tol and spec_ok and ncase == 'many':
                tol = max(tol, self.bracket_width('H', a, P1))
            if r > tol:
                sfx = suffix(); self.last_sfx.add(sfx)
                self.fail(family_sig(f'H-not-reproduced:{pair}:{ncase}', ka, sfx), f'specified H={b!r}, stream.H={float(s.H)!r} ({r:.3g} kJ/kg, allowed {tol:.3g}); T={T1}, P={P1}')
        s_noisy = any(th.chemicals.tuple[i].ID in S_NOISY for i in idx) or any(
            c.ID in S_NOISY and a_[i] > 0 for a_ in snap.extra.values() for i, c in enumerate(th.chemicals.tuple))
        if kb == 'S' and s_noisy: self.tags.append('S-noisy-skip')
        if kb == 'S' and not s_noisy and hs_ok:
            r = abs(float(s.S) - b) / Fm
            # P,S: S_hat_tol is 1e-6, but the liquid entropies of the `thermo` correlations carry numerical noise (cancellation
            # in the heat-capacity integrals) that is measured per chemical at set-up; the allowance is 1e-5 + 4 × the largest
            # noise among the chemicals present, never more than the former blanket 3e-4
            tol = min(3e-4, 1e-5 + 4 * max([S_NOISE.get(id(th.chemicals.tuple[i]), 0.) for i in idx] or [0.])) if ka == 'P' else 2e-6
            if ka == 'T' and r > tol and spec_ok and ncase == 'many':
                tol = max(tol, self.bracket_width('S', a, P1))
            if r > tol:
                sfx = suffix()
                if ka == 'P' and ncase == 'many' and two and np.abs(g1 / g1.sum() - mol / mol.sum()).max() < 1e-9:
                    # set_PS kept the flows of the LAST objective evaluation (all vapour at T_dew) although
                    # IQ_interpolation returned the bracket end T_bubble as a "lucky guess": the vapour left after the
                    # uniform condensation step has the composition of the whole feed
                    sfx = ':stale-split-after-lucky-guess'
                elif ka == 'P' and ncase == 'many' and Fl > 0:
                    # set_PS (like set_PH) takes 0.9·T_bubble + 0.1·Tmin as the lower temperature bracket when
                    # non-condensable gas is present; if the equilibrium state at the returned T still has more entropy
                    # than specified, the solution lies below the bracket: the code stops at the bracket end and condenses
                    # a uniform fraction of the vapour (exact for H, not for S)
                    try:
                        c = restore(th, snap)
                        c.vle(T=T1, P=a)
                        chs_ = [th.chemicals.tuple[i] for i in idx]
                        bp_ = tmo.equilibrium.BubblePoint(chs_, th)
                        T_low = 0.9 * float(bp_.solve_Ty(mol / F, a)[0]) + 0.1 * float(bp_.Tmin)
                        if float(c.S) > b:
                            # … and the call stopped at (or, after condensing everything, below) that bracket end
                            sfx = ':gas-below-temperature-bracket' if T1 <= T_low + 1e-6 else ':gas-below-temperature-bracket:not-at-bracket-end'
                    except Exception:
                        pass
                self.last_sfx.add(sfx)
                self.fail(family_sig(f'S-not-reproduced:{pair}:{ncase}', ka, sfx), f'specified S={b!r}, stream.S={float(s.S)!r} ({r:.3g} kJ/K/kg, allowed {tol:.3g}); T={T1}, P={P1}')

        if ncase != 'many':
            if kb == 'V' and ncase == 'one':
                if abs(Vfrac(s) - b) > 1e-12:
                    self.fail(f'V-not-met:{pair}:one', f'specified V={b}, result {Vfrac(s)}')
            return

        # ---------------- oracle G: an H / S specified flash returns an EQUILIBRIUM state ----------------
        # (set_PH's final correction closes H whatever T the solver returned; the split must still be the one a T,P flash of
        # the same stream gives at the returned T, P — without inert material, where no bracket-end fallbacks exist)
        if kb in ('H', 'S') and not inert and hs_ok and two and not (kb == 'S' and s_noisy):
            try:
                c = restore(th, (arr(s.imol['l']), arr(s.imol['g']), T1, P1)); c.vle(T=T1, P=P1)
                dev = float(np.abs(arr(c.imol['g']) - arr(s.imol['g'])).max() / (mol.sum()))
            except Exception:
                dev = 0.
            self.tags.append('HS-equilibrium-checked')
            if dev > 1e-4 and dev > 2 * self.resolution_spread(arr(s.imol['l']), arr(s.imol['g']), T1, P1, ka) + 1e-4:
                self.fail(f'not-equilibrium:{pair}{unconv}', f'{pair} flash returned T={T1}, P={P1} with a split that differs by {dev:.3g} of the flow from the T,P flash of the same stream at that T, P (the specified {kb} is reproduced, the state is not an equilibrium state)')

        # ---------------- oracle C0: V = 0 / V = 1 specified (bubble / dew point) ----------------
        if kb == 'V' and not inert and b in (0.0, 1.0):
            Vr = Vfrac(s)
            Ps_ = np.array([c.Psat(T1) for c in [th.chemicals.tuple[i] for i in idx]], float)
            Pb_, Pd_ = own_bubble_dew(th, [th.chemicals.tuple[i] for i in idx], mol / mol.sum(), Ps_, T1)
            want = Pb_ if b == 0.0 else Pd_
            self.tags.append('V-boundary-spec')
            if Vr != b or abs(P1 - want) > 2e-5 * want + 2.:
                self.fail(f'V-not-met:{pair}:boundary', f'specified V={b}: result V={Vr}, P={P1} at T={T1}; {"bubble" if b == 0.0 else "dew"} pressure there {want}')

        # ---------------- information only: V-specified flashes WITH non-condensable gas ----------------
        # The quantifier gives the V clause for mixtures within one homologous family (no gas), so nothing is judged here; the
        # tag shows how often set_TV / set_PV return their bubble-composition fallback (a split that is not the equilibrium
        # split at the returned T, P) instead of a solved state.  Unchanged code: P,V with V·F_volatile < F_gas; T,V: ~never.
        if kb == 'V' and Fl > 0 and Fh == 0 and two and 0.02 < b < 0.98:
            try:
                c = restore(th, (arr(s.imol['l']), arr(s.imol['g']), T1, P1)); c.vle(T=T1, P=P1)
                dev_ = float(np.abs(arr(c.imol['g']) - arr(s.imol['g'])).max() / (mol.sum() + Fl))
                self.tags.append(f'V-with-gas:{pair}:' + ('fallback-split' if dev_ > 1e-4 else 'equilibrium'))
            except Exception:
                pass

        # ---------------- oracle C: V met within the solver's resolution ----------------
        if kb == 'V' and not inert and 0.02 < b < 0.98:
            Vr = Vfrac(s)
            if abs(Vr - b) > 1.5e-6:
                # bracket: V(T−δ) ≤ V ≤ V(T+δ) (resp. P)
                lo, hi = self.bracket_V(pair, T1, P1)
                if lo != lo or hi != hi:
                    self.tags.append('bracket-raised'); lo, hi = 0., 1.
                if not (min(lo, hi) - 1.5e-6 <= b <= max(lo, hi) + 1.5e-6) or not (min(lo, hi) - 1e-4 <= Vr <= max(lo, hi) + 1e-4):
                    nb = ''
                    try:
                        chs_ = [th.chemicals.tuple[i] for i in idx]
                        Ps_ = np.array([c.Psat(T1) for c in chs_], float)
                        Pb_, Pd_ = own_bubble_dew(th, chs_, mol / mol.sum(), Ps_, T1)
                        # narrow-boiling mixture: the whole two-phase region spans < 15 % in pressure, so V moves by ~1e-3
                        # for a change of K within the inner tolerance K_tol, and warm-started inner solves of the outer
                        # iteration land on a different branch than a fresh T,P flash (hysteresis); documented miss ≤ 5e-3
                        if (Pb_ - Pd_) < 0.15 * Pb_ and abs(Vr - b) <= 5e-3 and not unconv: nb = ':narrow-boiling-hysteresis'
                    except Exception:
                        pass
                    self.fail('V-not-met:narrow-boiling-hysteresis' if nb else unconv_sig(f'V-not-met:{pair}', unconv), f'specified V={b}, result V={Vr}; V at ∓resolution: {lo}, {hi} (T={T1}, P={P1})')

        # ---------------- oracle D: phase boundary (TP) ----------------------------------
        z = mol / mol.sum()
        chems = [th.chemicals.tuple[i] for i in idx]
        if pair == 'TP' and not inert:
            Ps = np.array([c.Psat(a) for c in chems], float)
            # bubble / dew pressure from the CURRENT package's own chemical objects (chemical.Psat, a freshly built
            # thermo.Gamma), never from the library's cached BubblePoint / DewPoint objects; φ = pcf = 1 in these packages
            Pbub, Pdew = own_bubble_dew(th, chems, z, Ps, a)
            if b >= Pbub * (1 + 1e-7) and g1.sum() != 0:
                self.fail('phase-boundary:expected-liquid', f'P={b} ≥ bubble pressure {Pbub} at T={a} but vapour flow {g1.sum()} of {mol.sum()}')
            elif b <= Pdew * (1 - 1e-7) and l1.sum() != 0:
                self.fail('phase-boundary:expected-vapour', f'P={b} ≤ dew pressure {Pdew} at T={a} but liquid flow {l1.sum()} of {mol.sum()}')
            elif Pdew * (1 + 1e-5) < b < Pbub * (1 - 1e-5) and not two:
                self.fail('phase-boundary:expected-two-phase', f'dew {Pdew} < P={b} < bubble {Pbub} at T={a} but one phase is empty')

        # ---------------- oracle X: a specified liquid / vapour composition is the one on the stream ------
        if kb in ('x', 'y') and two:
            got = (l1 / l1.sum()) if kb == 'x' else (g1 / g1.sum())
            if np.abs(got - np.asarray(b, float)).max() > 1e-9:
                self.fail(f'composition-not-met:{pair}', f'specified {kb}={np.asarray(b)}, resulting {"liquid" if kb == "x" else "vapour"} composition {got}')
            self.tags.append('xy-composition-checked')

        # ---------------- oracle E: iso-fugacity ---------------------------------------
        two_sig = bool(two and min(l1.sum(), g1.sum()) > 1e-6 * (l1.sum() + g1.sum()))     # both phases hold a meaningful amount
        v_ok = True
        if kb == 'V' and not (b in (0.0, 1.0) or 0.02 < b < 0.98):
            self.tags.append('V-spec-outside-range'); two_sig = False; v_ok = False      # quantifier: V in (0.02, 0.98)
        gas_only_TP = pair == 'TP' and Fl > 0 and Fh == 0       # a T,P flash has no bracketing fallbacks: equilibrium must hold with gas too
        if two_sig and pair in ('TP', 'TV', 'PV', 'Tx', 'Ty', 'Px', 'Py'):
            x = l1 / (l1.sum() + Fh_eff(s, th)); y = g1 / (g1.sum() + Fl)
            flq = tmo.equilibrium.LiquidFugacities(chems, th)(l1 / l1.sum(), T1, P1) * (l1.sum() / (l1.sum() + Fh_eff(s, th)))
            fgs = tmo.equilibrium.GasFugacities(chems, th)(g1 / g1.sum(), T1, P1) * (g1.sum() / (g1.sum() + Fl))
            r = float(np.abs(flq / fgs - 1).max())
            if not inert: self.tags.append('fug<1e-6' if r < 1e-6 else 'fug<1e-5' if r < 1e-5 else 'fug>=1e-5')
            if inert: self.tags.append('fug-inert<1e-5' if r < 1e-5 else 'fug-inert>=1e-5')
            if r > 2e-5 and (not inert or gas_only_TP):
                self.fail(unconv_sig(f'iso-fugacity:{pair}{":gas" if inert else ""}', unconv), f'liquid fugacities {flq} vs vapour fugacities {fgs} (max relative gap {r:.3g}) at T={T1}, P={P1}')

        # ---------------- oracle F + model line: ideal package vs Raoult Rachford–Rice ------
        if self.kind == 'ideal' and pair in ('TP', 'TV', 'PV') and (not inert or gas_only_TP) and v_ok:
            Ps = np.array([c.Psat(T1) for c in chems], float)
            K = Ps / P1
            zz = mol / F
            zl, zh = Fl / F, Fh / F
            Vimpl = float((g1.sum() + Fl) / F)
            Vpy = rr_python(zz, K, zl, zh)
            self.emit(f'ideal {fl(zl)} {fl(zh)} | {vec(zz)} | {vec(K)}', f'V={fl(Vimpl)}')
            if abs(Vpy - Vimpl) > 1e-5:
                self.fail(unconv_sig(f'ideal-vs-RR:{pair}', unconv), f'ideal package: vapour fraction {Vimpl} but Raoult Rachford–Rice gives {Vpy} (z={zz}, K={K}, light {zl}, heavy {zh})')
            elif two_sig:
                xr = zz / (1 + Vpy * (K - 1)); yr = K * xr
                xi = l1 / (l1.sum() + Fh); yi = g1 / (g1.sum() + Fl)
                if max(np.abs(xr - xi).max(), np.abs(yr - yi).max()) > 1e-5:
                    self.fail(unconv_sig(f'ideal-vs-RR:{pair}', unconv), f'ideal package: phase compositions x={xi}, y={yi} but Raoult Rachford–Rice gives x={xr}, y={yr}')

    # ---- helpers that run extra real flashes ----------------------------------------
    def bracket_V(self, pair, T1, P1):
        snap = self.last[0]
        out = []
        for sgn in (-1, 1):
            c = restore(self.th, snap)
            try:
                if pair == 'PV': c.vle(T=T1 + sgn * 2 * vm.VLE.T_tol, P=P1)
                else: c.vle(T=T1, P=P1 - sgn * 2 * vm.VLE.P_tol)
                out.append(Vfrac(c))
            except Exception:
                out.append(float('nan'))
        return out

    def bracket_width(self, what, T, P1):
        """|H(T, P−P_tol) − H(T, P+P_tol)| per kg on the real code: the solver's stated resolution in H (or S)"""
        snap = self.last[0]
        vals = []
        for sgn in (-1, 1):
            c = restore(self.th, snap)
            try:
                c.vle(T=T, P=P1 + sgn * vm.VLE.P_tol)
                vals.append(float(c.H if what == 'H' else c.S) / float(c.F_mass))
            except Exception:
                return 0.
        return abs(vals[0] - vals[1])

    # ---- k·feed ---------------------------------------------------------------------
    def scale(self, t):
        k = float(t[1])
        if self.last is None: return
        snap, pair, a, b = self.last
        ka, kb = PAIR_KW[pair]
        if kb in ('x', 'y'): return
        if self.boundary_V_with_inert(kb, b, snap): return
        if kb in ('H', 'S') and not self.last_hs_ok: return
        if kb == 'S' and any(c.ID in S_NOISY and (snap[0][i] + snap[1][i]) > 0 for i, c in enumerate(self.th.chemicals.tuple)):
            self.tags.append('S-noisy-skip'); return
        res = []
        out_iter = False
        for kk in (1.0, k):
            c = restore(self.th, snap, kk)
            bb = b * kk if kb in ('H', 'S') else b
            n0 = NSOLVE[0]
            try:
                c.vle(**{ka: a, kb: bb})
            except Exception as e:
                self.tags.append('scale-raised')
                if isinstance(e, NotImplementedError) and ka == 'T' and kb in ('H', 'S') and gas_above_probe(self.th, snap, a, b, kb):
                    self.fail('not-reproduced:T-first:many:gas-above-pressure-bracket', f'{pair} flash of the k·feed replica (k={kk}) refused (NotImplementedError): target above the pressure bracket [P_dew, 2·P_bubble] used with gas present')
                    return
                self.fail(f'raised:{pair}:{type(e).__name__}', f'{pair} flash of the k·feed replica (k={kk}) raised {type(e).__name__} although the flash of the stream itself returned')
                return
            out_iter = out_iter or (NSOLVE[0] - n0 >= OUT_OF_ITER)
            res.append((arr(c.imol['l']), arr(c.imol['g']), float(c.T), float(c.P)))
        (l1, g1, T1, P1), (lk, gk, Tk, Pk) = res
        Ftot = (l1 + g1).sum()
        self.tags.append('scale')
        if not (280 <= T1 <= 450 and 2e4 <= P1 <= 1e6) or Ftot == 0: return
        if not (280 <= Tk <= 450 and 2e4 <= Pk <= 1e6): return
        dev = max(np.abs(lk / k - l1).max(), np.abs(gk / k - g1).max()) / Ftot
        allowed = 2e-4
        if dev > allowed: allowed += 2 * self.resolution_spread(l1, g1, T1, P1, ka)
        if dev > allowed or tp_differ(T1, Tk, P1, Pk, dev):
            sfx = self.fallback_suffix(ka, kb, ((l1, g1, T1, P1), (lk / k, gk / k, Tk, Pk)))
            sfx = sfx or self.t_first_scaling_suffix(ka, kb, snap, out_iter, self.last_sfx)
            self.fail(family_sig(f'scaling:{pair}', ka, sfx, scaling=True), f'{pair} flash of k·feed (k={k}): products/k differ from products of the feed by {dev:.3g} of the total flow; T {T1} vs {Tk}, P {P1} vs {Pk}')


def gas_above_probe(th, snap, T, target, kb):
    """gas present and the T,P flash of the stream at TWICE the bubble pressure of its condensable part still has more H (S)
    than the target: the solution of a T,H / T,S specification lies above the bracket set_TH / set_TS use"""
    try:
        chems = th.chemicals
        tot = snap[0] + snap[1]
        li = list(chems._light_indices)
        if not li or tot[li].sum() <= 0: return False
        nz = set(int(i) for i in np.nonzero(tot)[0])
        idx = list(chems.get_vle_indices(nz))
        chs = [chems.tuple[i] for i in idx]
        pb = float(tmo.equilibrium.BubblePoint(chs, th).solve_Py(tot[idx] / tot[idx].sum(), T)[0])
        c = restore(th, snap); c.vle(T=T, P=2 * pb)
        return float(c.H if kb == 'H' else c.S) > target
    except Exception:
        return False


def _resolution_spread(self, l1, g1, T1, P1, ka):
    """How far the split moves (fraction of the total flow) when the SOLVED one of T, P moves by the solver's stated
    resolution (P_tol = 1 Pa; 1e-3 K covers T_tol and the H_hat/S_hat tolerances): two real T,P flashes of the same
    material.  Large only for nearly pure volatile material next to inert gas / solute, where V jumps within a few Pa."""
    out = []
    for sgn in (-1, 1):
        c = restore(self.th, (l1, g1, T1, P1))
        try:
            if ka == 'T': c.vle(T=T1, P=P1 + sgn * float(vm.VLE.P_tol))
            else: c.vle(T=T1 + sgn * 1e-3, P=P1)
        except Exception:
            return 0.
        out.append(arr(c.imol['g']))
    self.tags.append('resolution-spread')
    return float(np.abs(out[0] - out[1]).max() / (l1 + g1).sum())
Run.resolution_spread = _resolution_spread


KNOWN_SUFFIXES = (':gas-above-pressure-bracket', ':inert:solver-out-of-iterations', ':gas:non-equilibrium-split-at-bracket-end',
                  ':inert:bubble-dew-fallback-split')


def family_sig(base, ka, sfx, scaling=False):
    """One signature per documented MECHANISM (pinned by its predicate), whatever the pair (TH / TS, PH / PS), the quantity (H / S)
    or the scaling oracle (replicas / same-stream history) through which it surfaces; everything else keeps its specific name."""
    if sfx in KNOWN_SUFFIXES:
        side = 'V-spec' if sfx == ':inert:bubble-dew-fallback-split' else ('T-first' if ka == 'T' else 'P-first')
        return (f'scaling:{side}{sfx}' if scaling else f'not-reproduced:{side}:many{sfx}')
    return base + sfx


def unconv_sig(base, unconv):
    return 'unconverged-solve:aitken-oscillation' if unconv == ':unconverged-solve' else base + unconv


def _t_first_scaling_suffix(self, ka, kb, snap, out_of_iter, primary_sfx):
    """T,H / T,S scaling failures that are consequences of the two documented T-first behaviours with inert material"""
    if not (ka == 'T' and kb in ('H', 'S')): return ''
    chems = self.th.chemicals
    tot = snap[0] + snap[1]
    li, hi = list(chems._light_indices), list(chems._heavy_indices)
    gas = bool(li) and tot[li].sum() > 0
    solute = bool(hi) and (tot[hi] * chems._heavy_solutes).sum() > 0
    if out_of_iter and (gas or solute): return ':inert:solver-out-of-iterations'
    if gas and ':gas-above-pressure-bracket' in primary_sfx: return ':gas-above-pressure-bracket'
    return ''
Run.t_first_scaling_suffix = _t_first_scaling_suffix


def _fallback_suffix(self, ka, kb, results):
    """P,H / P,S with non-condensable gas: the known bracket-end behaviours of set_PH / set_PS (target below the lowered
    temperature bracket, or IQ_interpolation's "lucky guess" at the bracket end) leave a split that is NOT the equilibrium
    split at the returned T and P (a uniform fraction of the vapour is condensed instead).  Which of the two paths is
    taken depends on rounding, so two such flashes need not scale.  Recognised by re-flashing each result at its own T, P."""
    chems = self.th.chemicals
    li = list(chems._light_indices)
    if kb == 'V':
        # set_PV / set_TV with gas or solute: when the shifted bracket end does not reach the specified V the code writes a
        # bubble / dew composition instead of solving (not an equilibrium split); whether it does depends on rounding
        hi = list(chems._heavy_indices)
        l0, g0 = results[0][0], results[0][1]
        inert = (li and (l0 + g0)[li].sum() > 0) or (hi and ((l0 + g0)[hi] * chems._heavy_solutes).sum() > 0)
        if not inert: return ''
        for (l_, g_, T_, P_) in results:
            try:
                c = restore(self.th, (l_, g_, T_, P_)); c.vle(T=T_, P=P_)
            except Exception:
                continue
            if np.abs(arr(c.imol['g']) - g_).max() > 1e-4 * (l_ + g_).sum():
                return ':inert:bubble-dew-fallback-split'
        return ''
    if not (ka == 'P' and kb in ('H', 'S')): return ''
    for (l_, g_, T_, P_) in results:
        if not li or (l_ + g_)[li].sum() <= 0: return ''
        try:
            c = restore(self.th, (l_, g_, T_, P_))
            c.vle(T=T_, P=P_)
        except Exception:
            continue
        if np.abs(arr(c.imol['g']) - g_).max() > 1e-4 * (l_ + g_).sum():
            return ':gas:non-equilibrium-split-at-bracket-end'
    return ''
Run.fallback_suffix = _fallback_suffix


def tp_differ(T1, Tk, P1, Pk, dev):
    """the solved one of T, P of two equivalent flashes: equal within 5e-3 K / 1e-5·P + 2 Pa — unless the two splits agree to
    2e-6 of the total flow, i.e. to the solver's own exit tolerance on V (V_tol = 1e-6): where V hardly depends on the solved
    variable, the solver's stated resolution does not pin it any better"""
    if dev <= 2e-6: return abs(Tk - T1) > 0.5 or abs(Pk - P1) > 2e-3 * P1
    return abs(Tk - T1) > 5e-3 or abs(Pk - P1) > 1e-5 * P1 + 2.



def boundary_V_with_inert(self, kb, b, snap):
    """V specifications that are not judged by the history / scaling oracles: outside the quantifier's (0.02, 0.98) unless
    exactly 0 or 1, and 0 / 1 with inert material (the code replaces the specification and uses its fallbacks)"""
    if kb != 'V': return False
    if not (b in (0.0, 1.0) or 0.02 < b < 0.98): return True
    if b not in (0.0, 1.0): return False
    chems = self.th.chemicals
    tot = snap[0] + snap[1]
    li, hi = list(chems._light_indices), list(chems._heavy_indices)
    return bool((li and tot[li].sum() > 0) or (hi and (tot[hi] * chems._heavy_solutes).sum() > 0))
Run.boundary_V_with_inert = boundary_V_with_inert

def _revisit(self, t):
    """history on one stream: re-issue, with the identical numbers, the specification of the n-th flash before the current
    one (after at least one flash with other specifications in between).  The flash is judged like any other call (so a
    specified V / H / S / T / P that is silently skipped shows), and its products must be those the same specification
    produced the first time (the result of a flash does not depend on what the VLE object solved before)."""
    n = int(t[1])
    if len(self.hist) < n or n < 2: return
    pair, a, b, F0, hs0 = self.hist[-n]
    first = self.hist_products[-n]
    ka, kb = PAIR_KW[pair]
    Fnow = float(sum(phase_arrays(self.s)).sum())
    if F0 <= 0 or Fnow <= 0: return
    k = Fnow / F0                                        # the stream may have been rescaled in between
    bb = b * k if kb in ('H', 'S') else b
    self._in_revisit = True
    self._inherit_hs_ok = hs0
    try:
        self.last_products = None
        self.vle(['vle', pair, repr(float(a)), repr(float(bb))])
    finally:
        self._in_revisit = False
        self._inherit_hs_ok = None
    self.tags += ['revisit', f'revisit:{pair}-after-{self.hist[-1][0]}']
    if first is None or self.last_products is None: return
    if kb in ('H', 'S') and not self.last_hs_ok: return
    if self.boundary_V_with_inert(kb, b, self.last[0]): return
    l1, g1, T1, P1 = first
    lk, gk, Tk, Pk = self.last_products
    Ftot = (l1 + g1).sum()
    in_rng = lambda T, P: 280 <= T <= 450 and 2e4 <= P <= 1e6
    if not in_rng(T1, P1) or not in_rng(Tk, Pk) or Ftot == 0: return
    if abs((lk + gk).sum() / k - Ftot) > 1e-9 * Ftot: return         # composition changed in between (not generated)
    if kb == 'S' and any(c.ID in S_NOISY and (l1[i] + g1[i]) > 0 for i, c in enumerate(self.th.chemicals.tuple)): return
    dev = max(np.abs(lk / k - l1).max(), np.abs(gk / k - g1).max()) / Ftot
    allowed = 2e-4
    if dev > allowed: allowed += 2 * self.resolution_spread(l1, g1, T1, P1, ka)
    if dev > allowed or tp_differ(T1, Tk, P1, Pk, dev):
        snap = self.last[0]
        sfx = self.fallback_suffix(ka, kb, ((l1, g1, T1, P1), (lk / k, gk / k, Tk, Pk)))
        sfx = sfx or self.t_first_scaling_suffix(ka, kb, snap, getattr(self, 'last_out_of_iter', False), self.last_sfx)
        self.fail(family_sig(f'revisit:{pair}', ka, sfx, scaling=True),
                  f'{pair} flash repeated with identical numbers after flashes with other specifications ({[h[0] for h in self.hist[-n + 1:]]}): '
                  f'products differ from the first time by {dev:.3g} of the total flow; T {T1} vs {Tk}, P {P1} vs {Pk}; vapour first {g1}, now {gk / k}')
Run.revisit = _revisit


def _rescale(self, t):
    """multiply every flow of THE SAME stream by k (the VLE object and whatever it remembers stay)"""
    self.s.scale(float(t[1]))
    self.tags.append('rescale')
    self.last = None
Run.rescale = _rescale


def _revle(self, t):
    """history on one stream: after a flash, multiply every flow of the same stream by k and flash it again at the same
    specification (H, S scaled with the flows); the second result must be k times the first, and every oracle of a
    flash is evaluated on it as on any other call"""
    k = float(t[1])
    if self.last is None or self.last_products is None: return
    snap, pair, a, b = self.last
    ka, kb = PAIR_KW[pair]
    if kb in ('x', 'y'): return
    if self.boundary_V_with_inert(kb, b, snap): return
    hs_ok = getattr(self, 'last_hs_ok', True)
    l1, g1, T1, P1 = self.last_products
    out1 = getattr(self, 'last_out_of_iter', False)
    self.s.scale(k)
    bb = b * k if kb in ('H', 'S') else b
    nf = len(self.failures)
    self.last_products = None
    self._inherit_hs_ok = hs_ok          # the re-issued target is the same one: in or out of the quantifier's H/S range as before
    try:
        self.vle(['vle', pair, repr(float(a)), repr(float(bb))])
    finally:
        self._inherit_hs_ok = None
    self.tags.append('revle')
    if self.last_products is None: return
    lk, gk, Tk, Pk = self.last_products
    Ftot = (l1 + g1).sum()
    if not (280 <= T1 <= 450 and 2e4 <= P1 <= 1e6) or Ftot == 0: return
    if not (280 <= Tk <= 450 and 2e4 <= Pk <= 1e6): return
    if kb == 'S' and any(c.ID in S_NOISY and (l1[i] + g1[i]) > 0 for i, c in enumerate(self.th.chemicals.tuple)):
        return
    if kb in ('H', 'S') and not hs_ok: return
    dev = max(np.abs(lk / k - l1).max(), np.abs(gk / k - g1).max()) / Ftot
    allowed = 2e-4
    if dev > allowed: allowed += 2 * self.resolution_spread(l1, g1, T1, P1, ka)
    if dev > allowed or tp_differ(T1, Tk, P1, Pk, dev):
        sfx = self.fallback_suffix(ka, kb, ((l1, g1, T1, P1), (lk / k, gk / k, Tk, Pk)))
        sfx = sfx or self.t_first_scaling_suffix(ka, kb, snap, out1 or getattr(self, 'last_out_of_iter', False),
                                                 self.last_sfx | getattr(self, 'prev_sfx', set()))
        self.fail(family_sig(f'scaling-history:{pair}', ka, sfx, scaling=True), f'{pair} flash, every flow of the same stream multiplied by k={k}, same {pair} flash again: '
                  f'products/k differ from the first products by {dev:.3g} of the total flow; T {T1} vs {Tk}, P {P1} vs {Pk}; '
                  f'vapour before {g1}, after/k {gk / k}')
Run.revle = _revle


def Fh_eff(s, th):
    chems = th.chemicals
    hi = list(chems._heavy_indices)
    if not hi: return 0.
    tot = sum(phase_arrays(s))
    return float((tot[hi] * chems._heavy_solutes).sum())


def run_ops(ops):
    r = Run()
    for line in ops:
        t = line.split(' ')
        if t[0] in ('feed', 'sfeed'): r.feed(t)
        elif r.s is None: continue
        elif t[0] == 'vle': r.vle(t)
        elif t[0] == 'scale': r.scale(t)
        elif t[0] == 'rescale': r.rescale(t)
        elif t[0] == 'revle': r.revle(t)
        elif t[0] == 'revisit': r.revisit(t)
        else: raise ValueError('unknown op ' + line)
    return r


def run_impl(case: Case) -> ImplResult:
    r = run_ops(case.ops)
    return ImplResult(model_in=r.model_in, outs=r.outs, failures=r.failures, tags=sorted(set(r.tags)),
                      nontrivial=(tuple(map(str, r.key)) if r.two_phase_solves else None))


# --------------------------------------------------------------------------
# comparison: floats within tolerance, everything else exact
# --------------------------------------------------------------------------
def _close(a, b, rtol, atol):
    if a != a or b != b: return (a != a) and (b != b)
    if a == b: return True
    return abs(a - b) <= atol + rtol * max(abs(a), abs(b))


def compare(impl_line, model_line):
    if impl_line == model_line: return True
    ti, tm = impl_line.split(' '), model_line.split(' ')
    if impl_line.startswith('V=') and model_line.startswith('V=') and len(ti) == 1:
        # `ideal` line: the implementation reports only V
        try:
            return _close(from_fbits(ti[0][2:]), from_fbits(tm[0][2:]), 0, 1e-5)
        except Exception:
            return False
    if len(ti) != len(tm): return False
    for a, b in zip(ti, tm):
        if a == b: continue
        if '=' not in a or '=' not in b: return False
        ka, va = a.split('=', 1); kb, vb = b.split('=', 1)
        if ka != kb: return False
        la, lb = va.split(','), vb.split(',')
        if len(la) != len(lb): return False
        for x, y in zip(la, lb):
            if x == y: continue
            if not (x.startswith('b') and y.startswith('b')): return False
            fx, fy = from_fbits(x), from_fbits(y)
            if ka in ('T', 'P', 'l', 'g'):
                if ka in ('T', 'P') and fy != fy: continue     # model: field comes from a numerical solve (parameter)
                if fx != fy: return False
            elif not _close(fx, fy, 1e-9, 1e-9 if ka in ('lv', 'gv') else 1e-13):
                return False
    return True


def disagree_signature(case, res, first):
    return 'disagree:' + res.model_in[first].split(' ')[0] + (':' + res.model_in[first].split(' ')[1] if res.model_in[first].startswith('call') else '')


def protect_prefix(case):
    return 1


def model_tags(line):
    out = []
    if 'BAD' in line: out.append('monitor-BAD')
    if line.startswith('conv'): out.append('exit-conv')
    if line == 'nonconv': out.append('exit-nonconv')
    return out


# --------------------------------------------------------------------------
# generation
# --------------------------------------------------------------------------
def gen_feed(rng, ti=None, nvol=None, inert=None):
    ti = rng.randrange(len(FAMILIES)) if ti is None else ti
    _, ids, kind = FAMILIES[ti]
    ids = [i[0] if isinstance(i, tuple) else i for i in ids]
    k = nvol if nvol is not None else rng.choice([1, 2, 2, 3, 3, 4, 5 if len(ids) >= 5 else 4])
    k = min(k, len(ids))
    sub = rng.sample(ids, k)
    while True:
        fr = [rng.uniform(0.03, 1.0) for _ in sub]
        tot = sum(fr)
        fr = [f / tot for f in fr]
        if min(fr) >= 0.02: break
    F = rng.choice([1.0, 10.0, 100.0, 37.5, 0.25])
    fl_ = [(c, round(F * f, 6)) for c, f in zip(sub, fr)]
    fg_ = []
    inert = rng.random() < 0.45 if inert is None else inert
    if inert:
        r = rng.random()
        if r < 0.6: fg_.append(('O2', round(F * rng.uniform(0.002, 0.05), 6)))
        if r > 0.4: fl_.append(('Glucose', round(F * rng.uniform(0.002, 0.05), 6)))
    # part of the volatile feed may arrive as vapour
    if rng.random() < 0.3:
        c, v = fl_[0]
        fl_[0] = (c, round(v / 2, 6)); fg_.append((c, round(v / 2, 6)))
    T0 = rng.choice([298.15, 300.0, 320.0, 350.0])
    line = f'feed {ti} {T0} 101325.0 l:' + ','.join(f'{c}={v}' for c, v in fl_)
    if fg_: line += ' g:' + ','.join(f'{c}={v}' for c, v in fg_)
    return line, k, bool(inert)


def gen_case(rng, ti=None):
    if ti in S0_PACKAGES:
        feed, k, inert = gen_feed(rng, ti, nvol=(1 if rng.random() < 0.5 else None), inert=False)
        F = sum(float(x.split('=')[1]) for tok in feed.split(' ')[4:] for x in tok.split(':', 1)[1].split(','))
        parts = feed.split(' ')
        parts[4] += f',Glucose={round(F * rng.uniform(0.02, 0.05), 6)}'
        feed = ' '.join(parts)
    else:
        feed, k, inert = gen_feed(rng, ti)
    if rng.random() < 0.15: feed = 's' + feed
    elif rng.random() < 0.14:
        # material in a phase other than g / l
        Ftot = sum(float(x.split('=')[1]) for tok in feed.split(' ')[4:] for x in tok.split(':', 1)[1].split(','))
        if rng.random() < 0.5: feed += f' s:Glucose={round(Ftot * rng.uniform(0.02, 0.06), 6)}'
        else:
            ids_ = [i[0] if isinstance(i, tuple) else i for i in FAMILIES[int(feed.split(' ')[1])][1]]
            ids_ = [i for i in ids_ if i not in S_NOISY] or ids_        # (their quantised liquid entropy would make every S target ill-posed)
            feed += f' L:{rng.choice(ids_)}={round(Ftot * rng.uniform(0.03, 0.12), 6)}'
    ops = [feed]
    P = round(10 ** rng.uniform(math.log10(2e4), math.log10(6e5 if rng.random() < 0.8 else 1e6)), 1)
    V = round(rng.uniform(0.03, 0.97), 4)
    ops.append(f'vle PV {P} {V}')
    menu = ['vle TP @ @', 'vle TV @ @', 'vle PH @ @', 'vle PS @ @', 'vle TH @ @', 'vle TS @ @',
            f'vle PH @ v{round(rng.uniform(0.03, 0.97), 3)}', f'vle PS @ v{round(rng.uniform(0.03, 0.97), 3)}',
            f'vle TH @ v{round(rng.uniform(0.03, 0.97), 3)}', f'vle TS @ v{round(rng.uniform(0.03, 0.97), 3)}',
            f'vle TV @ {round(rng.uniform(0.03, 0.97), 4)}', f'vle PV @ {round(rng.uniform(0.03, 0.97), 4)}',
            f'vle PV {round(P * rng.uniform(0.7, 1.4), 1)} {round(rng.uniform(0.03, 0.97), 4)}',
            # the specified T / P differs from the stream's current one (for every pair, whatever the number of chemicals)
            f'vle PH *{rng.choice([0.8, 1.25])} v{round(rng.uniform(0.03, 0.97), 3)}',
            f'vle PS *{rng.choice([0.8, 1.25])} v{round(rng.uniform(0.03, 0.97), 3)}',
            f'vle TH +{rng.choice([-6, 7])} v{round(rng.uniform(0.03, 0.97), 3)}',
            f'vle TS +{rng.choice([-6, 7])} v{round(rng.uniform(0.03, 0.97), 3)}',
            f'vle TV +{rng.choice([-6, 7])} {round(rng.uniform(0.03, 0.97), 4)}',
            f'vle PV *{rng.choice([0.8, 1.25])} {round(rng.uniform(0.03, 0.97), 4)}',
            f'vle PV @ {rng.choice([0.0, 1.0])}', f'vle TV @ {rng.choice([0.0, 1.0])}']
    has_gas = 'O2=' in feed
    def low_vap():
        # non-condensable gas present: enthalpy / entropy of an equilibrium state below (or just above) the bubble
        # temperature of the condensable part — the thin region of small vaporised fractions
        dT = round(rng.uniform(-45.0, 12.0), 1)
        if rng.random() < 0.5:
            dT = f'L{round(rng.uniform(-6.0, 1.5), 2)}'      # around the lower end of the code's temperature bracket
            return f'vle {rng.choice(["PH", "PH", "PS"])} {rng.choice(["@", "@", "*0.8", "*1.25", str(P)])} {dT}'
        return f'vle {rng.choice(["PH", "PH", "PS"])} {rng.choice(["@", "@", "*0.8", "*1.25", str(P)])} b{dT}'
    if has_gas and rng.random() < 0.35:
        ops[-1] = low_vap().replace(' @ ', f' {P} ').replace(' *0.8 ', f' {P} ').replace(' *1.25 ', f' {P} ')   # on the fresh stream
    if has_gas:
        for _ in range(rng.randrange(1, 4)): ops.append(low_vap())
    if k == 1 and not inert:
        # one volatile chemical: T,P flashes a few Pa either side of the saturation pressure, from every prior phase state
        for _ in range(rng.randrange(1, 4)):
            prior = rng.choice(['vle TP @ *0.5', 'vle TP @ *2.0', f'vle PV @ {round(rng.uniform(0.1, 0.9), 3)}', None])
            if prior: ops.append(prior)
            d = round(rng.choice([-1, 1]) * 10 ** rng.uniform(0.1, 2.7), 2)
            ops.append(f'vle TP {rng.choice(["@", "+4", "+-5"])} p{d}')
    elif not inert and rng.random() < 0.3:
        d = round(rng.choice([-1, 1]) * 10 ** rng.uniform(0.7, 2.7), 2)
        ops.append(f'vle TP @ p{rng.choice("bd")}{d}')
    if rng.random() < 0.5:
        ops.append('vle TP @ @')
        ops.append(f'revle {rng.choice([2.0, 0.25, 3.0, 10.0, 1.5])}')
    nops = rng.randrange(3, 7)
    for _ in range(nops):
        r = rng.random()
        if r < 0.12:
            # a T,P point just outside / inside the envelope: perturb the pressure of the current state
            ops.append('vle TP @ @')
            ops.append(f'vle TP @ {round(P * rng.choice([0.3, 0.6, 0.9, 1.1, 1.5, 2.5]), 1)}')
            ops.append(f'vle PV {P} {round(rng.uniform(0.03, 0.97), 4)}')
        elif r < 0.2 and k == 2 and not inert:
            ops.append('vle TP @ @')
            ops.append(rng.choice(['vle Tx +2 @', 'vle Ty +2 @', 'vle Px *1.05 @', 'vle Py *1.05 @']))
        else:
            ops.append(rng.choice(menu))
        if rng.random() < 0.22 and sum(1 for o in ops if o.startswith('vle')) >= 2:
            ops.append(f'revisit {rng.choice([2, 2, 3])}')        # an earlier specification again, after other pairs
        r2 = rng.random()
        if r2 < 0.2:
            ops.append(f'scale {rng.choice([2.0, 0.5, 3.0, 10.0, 0.1, 7.0, 1e-14, 4e-14, 1e-16, 1e-30, 1e9])}')
        elif r2 < 0.5:
            # history on the same stream: scale (powers of two keep the mole fractions bit-identical), flash again
            ops.append(f'revle {rng.choice([2.0, 0.25, 3.0, 10.0, 1.5, 0.5, 4.0, 0.1, 1e-15, 2.5e-14, 1e7])}')
            if rng.random() < 0.3: ops.append(f'revle {rng.choice([2.0, 0.5, 8.0, 1.5])}')
        elif r2 < 0.58:
            ops.append(f'rescale {rng.choice([2.0, 0.25, 3.0, 1.5])}')
    return Case(ops, {})


def revisit_grid():
    """every specification pair X re-issued with identical numbers after a flash with every pair Y that moved the state"""
    feeds = ['feed 0 300.0 101325.0 l:Methanol=4.0,Ethanol=3.5,1-Butanol=2.5', 'feed 4 300.0 101325.0 l:Hexane=6.0,Octane=4.0',
             'sfeed 10 300.0 101325.0 l:Hexane=3.0,Heptane=4.0,Toluene=3.0']
    X = ['vle TP @ @', 'vle TV @ @', 'vle TH @ @', 'vle TS @ @', 'vle PV @ @', 'vle PH @ @', 'vle PS @ @']
    Y = ['vle TP +3 @', 'vle TV @ 0.7', 'vle TH @ v0.7', 'vle TS @ v0.7', 'vle PV @ 0.7', 'vle PH @ v0.7', 'vle PS @ v0.7']
    out = []
    for f in feeds:
        for x in X:
            for y in Y:
                out.append(Case([f, 'vle PV 101325.0 0.4', x, y, 'revisit 2']))
    return out


def saturation_grid():
    """one volatile chemical, T,P flash ±1.5 … ±30 Pa from Psat(T), from an all-liquid, an all-vapour and a two-phase
    prior state (the phase-boundary clause for one chemical; P_tol = 1 Pa)"""
    feeds = ['feed 0 300.0 101325.0 l:Ethanol=10.0', 'feed 4 300.0 101325.0 l:Heptane=2.5', 'feed 2 300.0 101325.0 l:Water=7.0']
    out = []
    for f in feeds:
        for T in (320.0, 350.0, 380.0):
            for prior in (None, f'vle TP {T} 2000.0', f'vle TV {T} 0.5'):
                for d in (-30.0, -8.0, -3.0, -1.5, 1.5, 3.0, 8.0, 30.0):
                    out.append(Case([f] + ([prior] if prior else []) + [f'vle TP {T} p{d}']))
    return out


def generate(rng, tier, index, nworkers):
    for i, c in enumerate(revisit_grid() + saturation_grid()):
        if i % nworkers == index: yield c
    n = max(1, budget(tier)['cases'] // nworkers)
    for i in range(n):
        # every package is visited by every worker; singles and inert feeds appear through gen_feed's own draws
        yield gen_case(rng, ti=(index + i) % len(FAMILIES))


def spec_grid():
    """every specification pair × {one chemical, several, several + inert gas and solute} on a FRESH stream whose current
    T and P (300 K, 101325 Pa) differ from the specified ones: the complete table of `dispatch`, every run"""
    feeds = {'one': 'feed 0 300.0 101325.0 l:Ethanol=10.0',
             'one-hc': 'feed 4 300.0 101325.0 l:Heptane=2.5',
             'many': 'feed 0 300.0 101325.0 l:Methanol=4.0,Ethanol=3.5,1-Butanol=2.5',
             'binary': 'feed 1 300.0 101325.0 l:Hexane=6.0,Octane=4.0',
             'inert': 'feed 3 300.0 101325.0 l:Methanol=5.0,1-Propanol=5.0,Glucose=0.2 g:O2=0.3',
             'one+solute0': 'feed 11 300.0 101325.0 l:Ethanol=9.5,Glucose=0.5',
             'water+solute0': 'feed 12 300.0 101325.0 l:Water=9.6,Glucose=0.4',
             'many+solute0': 'feed 12 300.0 101325.0 l:Water=5.0,Ethanol=4.7,Glucose=0.3',
             # streams with MORE phases than g / l holding material there (it belongs to the stream's H, S and mass)
             'solid': 'feed 12 300.0 101325.0 l:Water=6.0,Ethanol=4.0 s:Glucose=0.4',
             'one+solid': 'feed 11 300.0 101325.0 l:Ethanol=10.0 s:Glucose=0.5',
             'second-liquid': 'feed 1 300.0 101325.0 l:Hexane=6.0,Toluene=4.0 L:Octane=1.0'}
    specs = ['vle TP 345.0 60000.0', 'vle TV 345.0 0.4', 'vle TV 345.0 0.0', 'vle TV 345.0 1.0', 'vle PV 60000.0 0.0', 'vle PV 60000.0 1.0', 'vle TH 345.0 v0.4', 'vle TS 345.0 v0.4',
             'vle PV 60000.0 0.4', 'vle PH 60000.0 v0.4', 'vle PS 60000.0 v0.4']
    out = []
    for f in feeds.values():
        for sp in specs:
            out.append(Case([f, sp]))
            # … and after an earlier flash of the same stream at other conditions
            out.append(Case([f, 'vle PV 150000.0 0.7', sp]))
    for f in (feeds['one'], feeds['many'], feeds['inert']):
        for sp in specs:
            out.append(Case(['s' + f, sp]))        # the same table entered through a single-phase Stream
    for f in (feeds['binary'], feeds['one']):
        for sp in ('vle Tx +3 @', 'vle Ty +3 @', 'vle Px *0.8 @', 'vle Py *0.8 @'):
            out.append(Case([f, 'vle PV 101325.0 0.4', sp]))
    return out


def low_vap_grid():
    """P,H and P,S on fresh streams holding 1–3 condensable chemicals + 2–5 % non-condensable gas, target = the
    equilibrium state 40 … 0 K below the bubble temperature of the condensable part (and a few above)"""
    feeds = ['feed 0 300.0 101325.0 l:Ethanol=10.0 g:O2=0.3', 'feed 2 300.0 101325.0 l:Water=10.0 g:O2=0.2',
             'feed 0 300.0 101325.0 l:Methanol=5.0,Ethanol=5.0 g:O2=0.5', 'feed 1 300.0 101325.0 l:Hexane=4.0,Heptane=3.0,Octane=3.0 g:O2=0.3',
             'feed 4 300.0 101325.0 l:Heptane=6.0,Toluene=4.0 g:O2=0.4']
    out = []
    for i, f in enumerate(feeds):
        for P in (101325.0, 400000.0):
            for dT in (-36, -30, -24, -18, -12, -6, 0, 6):
                out.append(Case([f, f'vle PH {P} b{dT}', f'vle {"PS" if (dT // 6 + i) % 2 else "PH"} @ b{dT + 3}']))
            for dT in (-4.0, -2.5, -1.5, -0.75, -0.25, 0.5):
                out.append(Case([f, f'vle PH {P} L{dT}']))
    return out


def corpus():
    return spec_grid() + low_vap_grid() + [
        # history on one stream: T,P flash – scale – the same T,P flash (z bit-identical for powers of two)
        Case(['feed 1 298.15 101325.0 l:Hexane=3.0,Heptane=4.0,Octane=3.0', 'vle TP 368.0 101325.0', 'revle 2.0', 'revle 0.25',
              'revle 3.0', 'vle PV 101325.0 0.4', 'vle TP @ @', 'revle 10.0', 'rescale 1.5', 'vle TP @ @']),
        Case(['feed 4 298.15 101325.0 l:Hexane=3.0,Heptane=4.0,Octane=3.0', 'vle TP 368.0 101325.0', 'revle 2.0', 'revle 0.25',
              'vle PH @ @', 'revle 2.0', 'vle TV @ @', 'revle 0.5']),
        # the same ID for two different chemicals, one package after the other, both orders, both kinds
        Case(['feed 5 298.15 101325.0 l:Solvent=5.0,Heptane=5.0', 'vle PV 101325.0 0.5', 'vle TP @ @', 'vle TP @ *1.3', 'vle TP @ *0.6']),
        Case(['feed 6 298.15 101325.0 l:Solvent=5.0,Heptane=5.0', 'vle PV 101325.0 0.5', 'vle TP @ @', 'vle TP @ *1.3', 'vle TP @ *0.6']),
        Case(['feed 5 298.15 101325.0 l:Solvent=5.0,Heptane=5.0', 'vle PV 101325.0 0.5', 'vle TP @ @']),
        Case(['feed 7 298.15 101325.0 l:Solvent=5.0,Heptane=5.0', 'vle PV 101325.0 0.5', 'vle TP @ @', 'vle TV @ @']),
        Case(['feed 8 298.15 101325.0 l:Solvent=5.0,Heptane=5.0', 'vle PV 101325.0 0.5', 'vle TP @ @', 'vle TV @ @']),
        Case(['feed 7 298.15 101325.0 l:Solvent=5.0,Heptane=5.0', 'vle PV 101325.0 0.5', 'vle TP @ @']),
        # DESIGN.md §8 #16: single chemical, T and V specified
        Case(['feed 0 300.0 101325.0 l:Ethanol=10.0', 'vle TV 350.0 0.4']),
        # single chemical, T and H / T and S specified
        Case(['feed 0 300.0 101325.0 l:Ethanol=10.0', 'vle TH 350.0 v0.5', 'vle TS 340.0 v0.25']),
        # single chemical: the other pairs
        Case(['feed 1 300.0 101325.0 l:Heptane=4.0', 'vle PV 50000.0 0.3', 'vle TP @ 20000.0', 'vle TP @ 900000.0',
              'vle PH 80000.0 v0.6', 'vle PS 80000.0 v0.2', 'scale 3.0']),
        # binary with liquid / vapour composition specified
        Case(['feed 0 300.0 101325.0 l:Methanol=6.0,1-Butanol=4.0', 'vle PV 101325.0 0.4', 'vle Tx +2 @',
              'vle PV 101325.0 0.4', 'vle Px *1.05 @', 'vle PV 101325.0 0.4', 'vle Ty +2 @', 'vle PV 101325.0 0.4', 'vle Py *1.05 @']),
        # nothing volatile: NoEquilibrium handlers
        Case(['feed 0 300.0 101325.0 l:Glucose=1.0 g:O2=2.0', 'vle TP 350.0 50000.0', 'vle TV 360.0 0.5', 'vle PV 60000.0 0.5',
              'vle TH 350.0 1.0']),
        # the doctest mixture under the ideal package, every pair
        Case(['feed 2 298.15 101325.0 l:Water=30.4,Ethanol=3.0,Acetone=4.0,Toluene=0.1', 'vle PV 101325.0 0.5', 'vle TP @ @',
              'vle PH @ @', 'vle PS @ @', 'vle TV @ @', 'vle TH @ @', 'vle TS @ @', 'scale 2.0']),
        # inert gas + solute present
        Case(['feed 1 298.15 101325.0 l:Hexane=5.0,Octane=5.0,Glucose=0.3 g:O2=0.2', 'vle PV 150000.0 0.5', 'vle TP @ @',
              'vle PH @ @', 'vle PS @ @', 'scale 0.5']),
    ]


def safe_tsat(chem, P):
    try:
        return float(chem.Tsat(P, check_validity=False))
    except Exception:
        return float('nan')


def own_bubble_dew(th, chems, z, Ps, T):
    """Modified-Raoult bubble and dew pressure from the package's own γ and Poynting objects:
    P_b = Σ z γ(z) pcf(P_b) Psat;  P_d = 1 / Σ z/(γ(x) pcf(P_d) Psat) with x the dew liquid (fixed points)."""
    gamma = th.Gamma(tuple(chems))
    pcf = th.PCF(tuple(chems))
    one = np.ones(len(z))
    g = np.asarray(gamma(z, T), float) * one
    Pbub = float((z * g * Ps).sum())
    for _ in range(100):
        Pn = float((z * g * np.asarray(pcf(T, Pbub, Ps), float) * one * Ps).sum())
        done = abs(Pn - Pbub) <= 1e-13 * Pn
        Pbub = Pn
        if done: break
    x = z / Ps; x = x / x.sum()
    Pdew = float(1. / (z / Ps).sum())
    for _ in range(300):
        k = np.asarray(gamma(x, T), float) * one * np.asarray(pcf(T, Pdew, Ps), float) * one * Ps
        Pnew = float(1. / (z / k).sum())
        xn = z * Pnew / k; xn = xn / xn.sum()
        done = abs(Pnew - Pdew) <= 1e-12 * Pnew and np.abs(xn - x).max() < 1e-13
        Pdew, x = Pnew, xn
        if done: break
    return Pbub, Pdew
