"""
C02 — stream energy balance: enthalpy is conserved by mixing / separating and is invertible
in temperature.

Adapter: real `Stream` / `MultiStream` / `Heat` / `Power` objects driven through the public API
(`mix_from(..., Q=, conserve_phases=)`, `separate_out`, the `H`, `h`, `S` setters).  The four
temperature solvers of the mixture object (`solve_T_at_HP`, `solve_T_at_SP`, `xsolve_T_at_HP`,
`xsolve_T_at_SP`) are wrapped at run time (no source edits): every call becomes one `sol=` entry of
the protocol line (phase(s) asked, returned T or "raised", the residual X(T) − target re-evaluated
with the real property function, the slope dX/dT).  The Lean driver recomputes the bookkeeping
(N = 0 / 1 / ≥ 2, Q folding, P = min, target enthalpy, phase flips, fallbacks) from the recorded
inlet enthalpies and solver answers and evaluates the hypothesis monitor.

`mix_from(..., vle=True)` and `energy_balance=False` are covered too: the `stream.vle(...)` call is wrapped, what it
was asked for (H = Σ H_in + Q resp. T = receiver.T, P = min P) is compared with the model, what it left (T, phases holding
material) is the model's parameter.  Without the energy balance the oracle requires T untouched and P = min P only for two
or more non-empty inlets.

Oracle (real objects only): receiver.H = Σ inlet.H (read before the call) + Q + heats;
receiver.P = min P of the non-empty inlets; read-back after assignment; re-assigning the current
value leaves T where it was; separate_out leaves H_self − H_other.
Lean model: lean/ThermoVerif/Model/EnergyBalance.lean — written to the behaviour with the four repairs of
fixes_proposed/C02-1..4.md (Q dropped for N = 1; `self.S =` in the S setter's fallback; inlet enthalpies read after the
receiver was overwritten; conserve_phases asking heat objects / None for `.phase`), so on the unpatched tree the check
reports `mix:energy:N=1`, `set:readback:S`, `mix:energy:alias`, `mix:raised`.  One finding is not a small fix and has its
own signature, `set:raised:S:model-not-monotone` (thermo's noisy liquid entropy makes the solver fail on ≈0.4 % of
liquid-holding entropy targets); it is meant to be listed in known_findings.jsonl.
"""
from __future__ import annotations
import math, re, warnings
from harness.core import Case, ImplResult, fbits, from_fbits

PID = 'C02'
LEAN_MODULES = ['ThermoVerif.Props.C02']
RULE = ('51 % single-mix cases, 30 % histories (3–6 further operations on ONE receiver: mix again with the receiver among the '
        'inlets, assign H / h / S, separate a share — each step judged by the oracles), 13 % shared-state histories, 6 % Peng-Robinson '
        'histories; flags vle=True 14 %, energy_balance=False 14 %; '
        'MultiStream receivers / inlets over gl, ls, gs, gls, lL, glL and single-phase L streams (conserve_phases 50 % when one is present); '
        'shared-state histories, evidence tags shared:* (a MultiStream separated from its own phase view; a MultiStream whose material moves between its phases at constant T, P and overall composition between two reads; a stream and its proxy taken there and back; a stream and its copy / flow proxy / copy_like twin going separate ways; two properties read, a composition-only edit, one re-read, the other used); gas-phase histories in a Peng-Robinson (equation-of-state) property package; 7 % of cases with trace flows (1e-9..1e-8 kmol/hr in all, non-empty); cases of 1–5 inlets (single-phase l/g streams, two-phase MultiStreams, empty streams, Heat/Power objects, None), '
        'T 250–500 K, P 1e4–1e7 Pa (log-uniform), 5 chemicals with random flows; receiver fresh / multi-phase / one of the inlets; '
        'Q = ΔT·ΣC with ΔT ∈ ±40 K, 0, or huge (fallback branches); conserve_phases 10 %; then separate_out of a sub-stream '
        '(equal shares of {exactly the parent\'s T, another T} x {same phase, opposite phase}; 15 % at another pressure) and '
        'H / h / S assignments with targets between the values at 250 K and 500 K, the current value, the other phase\'s value; '
        'non-trivial = ≥ 2 non-empty inlets at different T, or Q ≠ 0, or an assignment that moves T; distinct = distinct op lists')
ASSUMPTIONS = [
    'H(phase, n, T, P), S, Cn of the mixture object are parameters (thermo/chemicals correlations); their values are the '
    'ones the real run produced',
    'solver hypothesis (monitored on every recorded call): the returned T satisfies |X(T) − target| ≤ rtol·|target| + 2e-6 K·dX/dT '
    '(rtol 1e-9 for H, h and the entropy of gases; 2e-5 for S where liquid is involved because thermo\'s liquid HEOS_FIT entropy '
    'integral carries float noise of ≈1e-3 J/mol/K) '
    'and dX/dT > 0',
    'convergence of the Aitken / secant iteration inside flexsolve is monitored, not proved',
    'domain: a step judged by the oracle starts from streams with 150 K ≤ T ≤ 1500 K; a state outside (left by an earlier failing '
    'step of a history) makes the following steps correspondence-only (dom=0, tag start-out-of-domain); a solver answer outside '
    'that range is a hypothesis violation (hyp=range) that both sides report, and the step is failed by the oracle '
    '(set:readback / set:left-domain, or the known signature where the entropy model is not monotone)',
    'H_strictMono / S_strictMono hypothesis (monitored where an entropy assignment failed on a reachable target): the real '
    'property function is strictly increasing over 17 points spaced 2e-6 K around the solution.  The known signature '
    'set:raised:S:model-not-monotone is given only when it is not AND the library\'s own setter, re-run on a copy of the stream with '
    'Mixture.S replaced by a smooth fit of itself, succeeds (so the noise, not the solver or the setter, is the cause)',
    'material side of mixing (which flows end up where) is C01\'s concern; only emptiness and phase labels are used here',
    'the vapour-liquid equilibrium called by mix_from(vle=True) is a parameter (C03 / C04 own it): its answer (T, phases holding '
    'material) is recorded; hypothesis VleSound: an H,P flash that returns reproduces H (checked by the mix:energy oracle)',
]
TRUSTED = ['Lean 4.33 kernel', 'harness/props/c02.py + Driver/C02.lean (parsing, tolerances: rtol 1e-9 + 2e-6 K·slope on H, 1e-6 K on T)',
           'generator reach (see histogram)']

tmo = None
CHEMS = ['Water', 'Ethanol', 'Methanol', 'Glycerol', 'Propane']
CHEMS_PR = ['CO2', 'N2', 'Ethanol', 'Propane', 'Methane']      # the Peng-Robinson package (gas-phase cases)
THERMOS = {}
T_LO, T_HI = 250.0, 500.0
_REC = None
_VREC = None       # recorder of stream.vle(...) calls


# ----------------------------------------------------------------------------------------------
# setup: wrap the solvers
# ----------------------------------------------------------------------------------------------

def _phkey_single(phase): return str(phase)
def _phkey_multi(phase_mol): return '*' + ''.join(sorted(str(p) for p, _ in phase_mol))


def setup():
    global tmo
    import thermosteam as tmo_
    tmo = tmo_
    warnings.simplefilter('ignore')
    tmo.settings.set_thermo(CHEMS, cache=True)
    THERMOS['id'] = tmo.settings.get_thermo()
    # a second property package: the same interface with an equation-of-state (Peng-Robinson) mixture, whose H, S, Cn
    # go through cached EOS arguments (`_free_energy_args`) that every solve has to clear again
    chems_pr = tmo.Chemicals(CHEMS_PR, cache=True)
    THERMOS['pr'] = tmo.Thermo(chems_pr, mixture=tmo.mixture.PRMixture.from_chemicals(chems_pr))
    for th in THERMOS.values(): _wrap_mixture_class(type(th.mixture))
    _wrap_vle()


def _wrap_mixture_class(cls):
    if cls.__dict__.get('_verif_c02', False): return

    def wrap_single(name, X, entropy):
        orig = getattr(cls, name)
        def solver(self, phase, mol, target, T_guess, P):
            rec = _REC
            if rec is None: return orig(self, phase, mol, target, T_guess, P)
            try:
                T = orig(self, phase, mol, target, T_guess, P)
            except Exception as e:
                rec.append(('ex', _phkey_single(phase), type(e).__name__, str(e)[:200], float(target)))
                raise
            try:
                T = float(T)
                resid = float(getattr(self, X)(phase, mol, T, P)) - float(target)
                slope = float(self.Cn(phase, mol, T, P))
                if entropy: slope /= T
            except Exception:
                resid, slope = float('nan'), float('nan')
            rec.append(('ok', _phkey_single(phase), T, resid, slope, float(target)))
            return T
        solver._verif = True
        setattr(cls, name, solver)

    def wrap_multi(name, X, entropy):
        orig = getattr(cls, name)
        def solver(self, phase_mol, target, T_guess, P):
            rec = _REC
            if rec is None: return orig(self, phase_mol, target, T_guess, P)
            phase_mol = tuple(phase_mol)
            try:
                T = orig(self, phase_mol, target, T_guess, P)
            except Exception as e:
                rec.append(('ex', _phkey_multi(phase_mol), type(e).__name__, str(e)[:200], float(target)))
                raise
            try:
                T = float(T)
                resid = float(getattr(self, X)(phase_mol, T, P)) - float(target)
                slope = float(self.xCn(phase_mol, T, P))
                if entropy: slope /= T
            except Exception:
                resid, slope = float('nan'), float('nan')
            rec.append(('ok', _phkey_multi(phase_mol), T, resid, slope, float(target)))
            return T
        solver._verif = True
        setattr(cls, name, solver)

    wrap_single('solve_T_at_HP', 'H', False)
    wrap_single('solve_T_at_SP', 'S', True)
    wrap_multi('xsolve_T_at_HP', 'xH', False)
    wrap_multi('xsolve_T_at_SP', 'xS', True)
    cls._verif_c02 = True


def _wrap_vle():
    # the vapour-liquid equilibrium is a parameter of the model: record what mix_from asked of it and what it left
    from thermosteam.equilibrium import VLE
    if getattr(VLE, '_verif_c02', False): return
    VLE._verif_c02 = True
    vle_orig = VLE.__call__
    def vle_call(self, **kw):
        global _REC
        vrec = _VREC
        if vrec is None: return vle_orig(self, **kw)
        saved, _REC = _REC, None            # solver calls inside the flash belong to the flash
        spec = {k: (float(v) if k in ('T', 'P', 'H') else 0.0) for k, v in kw.items() if v is not None}
        try:
            r = vle_orig(self, **kw)
        except Exception as e:
            vrec.append(('ex', spec, type(e).__name__)); raise
        finally:
            _REC = saved
        held = ''.join(sorted(ph for ph, mol in self._imol if mol.any()))
        vrec.append(('ok', spec, float(self._thermal_condition.T), held))
        return r
    VLE.__call__ = vle_call


def budget(tier):
    return {'quick': dict(seconds=80, cases=4800, shrink_s=15, search_s=5),
            'thorough': dict(seconds=480, cases=90000, shrink_s=40, search_s=20)}[tier]


# ----------------------------------------------------------------------------------------------
# observation helpers (public API / mixture functions only)
# ----------------------------------------------------------------------------------------------

def is_multi(s): return isinstance(s, tmo.MultiStream)
def is_stream(s): return isinstance(s, tmo.Stream)


def ph_of(s):
    return '*' + ''.join(sorted(s.phases)) if is_multi(s) else s.phase


def chars(x): return x if x else '-'


def st_of(s):
    return f'{ph_of(s)}/{fbits(s.T)}/{fbits(s.P)}/{1 if s.isempty() else 0}'


def read(s, kind):
    """stream.H / .h / .S, `nan` when the property models reject the state"""
    try:
        v = getattr(s, kind)
        return float('nan') if v is None else float(v)
    except Exception:
        return float('nan')


def value_at(s, kind, T, phase=None):
    """X of the stream's material at temperature T (same P, same or given phase), from the mixture functions"""
    m = s.mixture
    P = s.P
    try:
        if is_multi(s):
            pm = tuple(s._imol) if kind != 'h' else tuple(s._imol.iter_composition())
            return float((m.xS if kind == 'S' else m.xH)(pm, T, P))
        mol = s.mol if kind != 'h' else s.z_mol
        return float((m.S if kind == 'S' else m.H)(phase or s.phase, mol, T, P))
    except Exception:
        return float('nan')


def micro_monotone(s, kind, x, phase):
    """hypothesis monitor for `H_strictMono` / `S_strictMono` at the scale the solver works at: locate the temperature
    with X(T) = x in [250, 500] K by bisection on the real property function and test that X is strictly increasing over
    17 points spaced 2e-6 K around it.  Returns None when the target is not bracketed."""
    lo, hi = T_LO, T_HI
    flo, fhi = value_at(s, kind, lo, phase) - x, value_at(s, kind, hi, phase) - x
    if not (flo <= 0 <= fhi): return None
    for _ in range(60):
        mid = 0.5 * (lo + hi)
        if value_at(s, kind, mid, phase) - x <= 0: lo = mid
        else: hi = mid
    vals = [value_at(s, kind, lo + j * 2e-6, phase) for j in range(-8, 9)]
    _TSTAR[0] = lo
    return all(b > a for a, b in zip(vals, vals[1:]))


_TSTAR = [None]      # the solution temperature located by the last micro_monotone call


def noise_is_cause(s, T0, ph0, Tstar):
    """Is the documented defect (the liquid entropy model's float noise) what made this entropy assignment fail?
    Decided by an independent experiment on the REAL code: the same setter is run again on a copy of the stream in its
    state before the assignment, with `Mixture.S` replaced for the duration by a smooth version of itself (a degree-7
    least-squares polynomial through 33 samples of the real S over 230..520 K, per phase and composition), towards the
    value that smooth function has at the solution temperature `Tstar` located by bisection.  If the library's own
    solver now succeeds, the noise was the cause; if it fails on the smooth function too, something else is wrong with
    the solver or the setter and the failure is NOT the known one.  Returns True / False, None when undecidable."""
    import numpy as np
    if Tstar is None: return None
    cls = type(s.mixture)
    orig = cls.S
    fits = {}
    lo, hi, mid, half = 230.0, 520.0, 375.0, 145.0

    def key_of(phase, mol, P):
        return (str(phase), tuple(sorted(mol.dct.items())) if hasattr(mol, 'dct') else tuple(float(v) for v in mol), float(P))

    def smooth(self, phase, mol, T, P):
        if not (lo <= T <= hi): return orig(self, phase, mol, T, P)
        k = key_of(phase, mol, P)
        if k not in fits:
            Ts = np.linspace(lo, hi, 33)
            ys = np.array([float(orig(self, phase, mol, float(t), P)) for t in Ts])
            fits[k] = np.polynomial.polynomial.polyfit((Ts - mid) / half, ys, 7)
        return float(np.polynomial.polynomial.polyval((T - mid) / half, fits[k]))

    try:
        c = s.copy()
        if not is_multi(c) and ph0 and len(ph0) == 1: c.phase = ph0
        cls.S = smooth
        try:
            c.T = Tstar
            target = float(c.S)
            c.T = T0
            c.S = target
            return bool(abs(c.T - Tstar) < 0.05 and ph_of(c) == ph0)
        finally:
            cls.S = orig
    except Exception:
        cls.S = orig
        return False if fits else None


def CHEM_IDS(s):
    return s.chemicals.IDs


def fresh_H(s):
    """the enthalpy flow of the stream's CURRENT state, evaluated with the mixture functions directly (no property memo)"""
    if s.isempty(): return 0.0
    return value_at(s, 'H', s.T)


def check_inlet_reads(streams, Hs, fail):
    """an inlet's `.H` is the enthalpy of the state it is in NOW — also after a there-and-back history through a proxy
    or a phase view that shares its property memo"""
    for i, h in zip(streams, Hs):
        f = fresh_H(i)
        C = read(i, 'C')
        floor = 1e-8 * abs(C) if C == C else 0.0          # what 1e-8 K would change: H may be a difference of large terms
        if f == f and h == h and not abs(h - f) <= 1e-9 * max(abs(h), abs(f)) + floor:
            fail('inlet:H-stale', f'a stream reports H = {h!r} but the enthalpy of its current state '
                                  f'(T = {i.T!r}, P = {i.P!r}, phase {ph_of(i)}) is {f!r}')


def sol_tokens(rec):
    if not rec: return '-'
    out = []
    for r in rec:
        if r[0] == 'ex': out.append(f'ex:{r[1]}:{fbits(r[4])}')
        else: out.append(f'ok:{r[1]}:{fbits(r[2])}:{fbits(r[3])}:{fbits(r[4])}:{fbits(r[5])}')
    return ';'.join(out)


def last_slope(rec):
    for r in reversed(rec):
        if r[0] == 'ok' and r[4] == r[4]: return abs(r[4])
    return 0.0


T_DOM = (150.0, 1500.0)      # outside it the property models extrapolate; a state there is outside the property's domain


def indom(T): return T == T and T_DOM[0] <= T <= T_DOM[1]


def hyp_range(rec):
    """the part of the hypothesis monitor both sides evaluate: a solver answer outside the physical domain"""
    for i, r in enumerate(rec):
        if r[0] == 'ok' and not indom(r[2]): return f'range@{i}'
    return 'ok'


def last_call_unsound(rec, rtol):
    """the solver itself is at fault: its last call raised, or returned a temperature whose residual (re-evaluated with the
    real property function against the target of THAT call) is out of tolerance"""
    if not rec: return False
    r = rec[-1]
    if r[0] == 'ex': return True
    allowance = ALLOW_K * abs(r[4]) if indom(r[2]) and r[4] == r[4] else 0.0
    return not (abs(r[3]) <= rtol * abs(r[5]) + allowance)


FAR_K = 100.0         # 'far start': the solution lies further than this from the temperature the solver starts at
ALLOW_K = 2e-6        # a read-back may be off by the solver's own T_tol (1e-6 K) times the slope dX/dT, doubled
RTOL = {'H': 1e-9, 'h': 1e-9, 'S': 2e-5, 'Sg': 1e-9}     # 'Sg': entropy of a stream that is and stays a gas


def answer(s, out, Hread, rec, tol, dom=True):
    """the implementation's answer line; `dom=0` marks an operation outside the property's quantifier (absurd
    target / heat, used only to reach the fallback branches): the value read back and the solver hypothesis are then not compared"""
    return (f'out={out} ph={ph_of(s)} T={fbits(s.T)} P={fbits(s.P)} e={1 if s.isempty() else 0} H={fbits(Hread)} '
            f'calls={len(rec)} q={",".join(r[1] for r in rec) if rec else "-"} hyp={hyp_range(rec)} tolH={fbits(tol)} dom={1 if dom else 0}')


# ----------------------------------------------------------------------------------------------
# the adapter
# ----------------------------------------------------------------------------------------------

def flows(tok):
    return [float(x) for x in tok.split(',')]


def run_ops(ops):
    global _REC, _VREC
    objs = []
    model_in, outs, failures, tags = [], [], [], set()
    nontrivial = False

    def fail(sig, what):
        failures.append({'signature': sig, 'op_index': len(model_in) - 1, 'what': what})

    tmo.settings.set_thermo(THERMOS['id'])
    for line in ops:
        t = line.split(' ')
        op = t[0]
        if op == 'PKG':
            # the streams created from here on use this property package ('id' ideal mixture, 'pr' Peng-Robinson mixture)
            tmo.settings.set_thermo(THERMOS[t[1]]); tags.add('package:' + t[1])
        elif op == 'S':
            s = tmo.Stream(None, T=float(t[2]), P=float(t[3]), phase=t[1])
            s.imol.data[:] = flows(t[4])
            objs.append(s)
        elif op == 'M':
            s = tmo.MultiStream(None, T=float(t[1]), P=float(t[2]), phases=('g', 'l'))
            fg, fl = t[3].split('|')
            s.imol['g'] = flows(fg); s.imol['l'] = flows(fl)
            objs.append(s)
        elif op == 'MP':
            # MP <phases> <T> <P> <flows per phase, in the order given, separated by |>
            phs = t[1]
            s = tmo.MultiStream(None, T=float(t[2]), P=float(t[3]), phases=tuple(phs))
            for ph, fl in zip(phs, t[4].split('|')): s.imol[ph] = flows(fl)
            objs.append(s)
        elif op == 'Q':
            objs.append(tmo.Heat(None, heat=float(t[1])))
        elif op == 'W':
            objs.append(tmo.Power(None, power=float(t[1])))
        elif op == 'N':
            objs.append(None)
        elif op == 'proxy':
            a = objs[int(t[1])]
            objs.append(a.proxy() if is_stream(a) else None)          # a second handle on the same flows and T, P
            tags.add('shared:proxy')
        elif op == 'copy':
            a = objs[int(t[1])]
            objs.append(a.copy() if is_stream(a) else None)           # an independent stream in the same state
            tags.add('shared:copy')
        elif op == 'flowproxy':
            a = objs[int(t[1])]
            objs.append(a.flow_proxy() if is_stream(a) else None)     # shares the flows, has its own T and P
            tags.add('shared:flow_proxy')
        elif op == 'copylike':
            b, a = objs[int(t[1])], objs[int(t[2])]
            if is_stream(a) and is_stream(b):
                try: b.copy_like(a); tags.add('shared:copy_like')
                except Exception: tags.add('copylike-raised')
        elif op == 'view':
            a = objs[int(t[1])]
            objs.append(a[t[2]] if is_multi(a) and t[2] in a.phases else None)      # the phase view parent['g'] / parent['l']
            tags.add('shared:phase-view')
        elif op == 'T':
            a = objs[int(t[1])]
            if is_stream(a): a.T = float(t[2])
        elif op == 'flow':
            # `flow a i v [phase]`: one flow rate edited in place — a composition-only change (phase, T, P bit-identical)
            a = objs[int(t[1])]
            if is_stream(a):
                if is_multi(a):
                    ph = t[4] if len(t) > 4 and t[4] in a.phases else a.phases[0]
                    a.imol[ph, CHEM_IDS(a)[int(t[2])]] = float(t[3])
                else:
                    a.imol.data[int(t[2])] = float(t[3])
                tags.add('shared:composition-only')
        elif op == 'move':
            # `move a i amount from to`: `amount` kmol/hr of chemical i goes from one phase of a MultiStream to another —
            # a phase-split-only edit: T, P and the overall composition stay bit-identical
            a = objs[int(t[1])]
            if is_multi(a) and t[4] in a.phases and t[5] in a.phases:
                ID = CHEM_IDS(a)[int(t[2])]
                amt = min(float(t[3]), float(a.imol[t[4], ID]))
                a.imol[t[4], ID] = float(a.imol[t[4], ID]) - amt
                a.imol[t[5], ID] = float(a.imol[t[5], ID]) + amt
                tags.add('shared:phase-split-only')
        elif op == 'vleV':
            # `vleV a V`: a flash at the stream's pressure to the vapour fraction V (for a pure chemical a second such
            # flash changes nothing but the phase split)
            a = objs[int(t[1])]
            if is_multi(a):
                try: a.vle(V=float(t[2]), P=a.P); tags.add('shared:phase-split-by-flash')
                except Exception: tags.add('vleV-raised')
        elif op == 'rd':
            a = objs[int(t[1])]
            if is_stream(a): read(a, t[2] if len(t) > 2 else 'H')       # a read that fills the property memo
        elif op == 'sub':
            # a new stream holding a share of stream a's material at a.T + dT (dT = 0.0: exactly a's temperature)
            a = objs[int(t[1])]
            fr = flows(t[2])
            if not is_stream(a):
                objs.append(tmo.Stream(None)); continue
            switch = len(t) > 6 and t[6] == 'x'        # the share is a stream of the OTHER kind (Stream <-> MultiStream)
            if switch and is_multi(a):
                # a single-phase Stream holding a share of the parent's first non-empty phase
                src = next((ph for ph in a.phases if a.imol[ph].any()), a.phases[0])
                row = a.imol[src]; arr = row.to_array() if hasattr(row, 'to_array') else list(row)
                b = tmo.Stream(None, T=max(a.T + float(t[3]), 1.0), P=a.P, phase=src)
                b.imol.data[:] = [x * f for x, f in zip(arr, fr)]
                objs.append(b); continue
            if switch:
                # a MultiStream over ('g', 'l') holding a share of the single-phase parent in the parent's phase
                arr = a.mol.to_array() if hasattr(a.mol, 'to_array') else list(a.mol)
                phs = tuple(sorted(set('gl') | {a.phase}))
                b = tmo.MultiStream(None, T=max(a.T + float(t[3]), 1.0), P=a.P, phases=phs)
                b.imol[a.phase] = [x * f for x, f in zip(arr, fr)]
                objs.append(b); continue
            if is_multi(a):
                # a share of every phase of a multi-phase parent, over the same phase tuple
                Pf = float(t[5]) if len(t) > 5 else 1.0
                b = tmo.MultiStream(None, T=max(a.T + float(t[3]), 1.0), P=a.P * Pf, phases=tuple(a.phases))
                for ph in a.phases:
                    row = a.imol[ph]
                    arr = row.to_array() if hasattr(row, 'to_array') else list(row)
                    b.imol[ph] = [x * f for x, f in zip(arr, fr)]
                objs.append(b); continue
            # optional: `other` = the opposite phase (a vapour bleed from a liquid, condensate from a gas); a pressure factor
            phase = a.phase
            if len(t) > 4 and t[4] == 'other' and phase in 'lg': phase = 'g' if phase == 'l' else 'l'
            Pf = float(t[5]) if len(t) > 5 else 1.0
            b = tmo.Stream(None, T=max(a.T + float(t[3]), 1.0), P=a.P * Pf, phase=phase)
            arr = a.mol.to_array() if hasattr(a.mol, 'to_array') else list(a.mol)
            b.imol.data[:] = [x * f for x, f in zip(arr, fr)]
            objs.append(b)
        elif op in ('mix', 'sum', 'add', 'iadd', 'radd'):
            # `mix r ins mode q cp [flags]` calls r.mix_from; the same energy path is reached through
            #   `sum ins`   -> Stream.sum([...])  (a NEW stream with the thermal condition of the first one, then mix_from)
            #   `add a b`   -> a + b               (Stream.sum([a, b]))
            #   `iadd a b`  -> a += b              (a.mix_from([a, b]))
            #   `radd a`    -> 0 + a               (a.__radd__(0) = Stream.sum([a, 0]); what the builtin sum() starts with)
            creates = op in ('sum', 'add', 'radd')
            if op == 'mix':
                recv = objs[int(t[1])]
                idx = [int(x) for x in t[2].split(',')] if t[2] != '-' else []
                ins = [objs[i] for i in idx]
                mode, qv, cp = t[3], float(t[4]), t[5] == '1'
                flags = t[6] if len(t) > 6 else ''
            else:
                idx = [int(x) for x in (t[1].split(',') if op == 'sum' else t[1:2] if op == 'radd' else t[1:3])]
                ins = [objs[i] for i in idx]
                mode, qv, cp, flags = 'abs', 0.0, False, (t[2] if op == 'sum' and len(t) > 2 else '')
                if op == 'radd': ins = ins + [None]          # the 0 is skipped like a missing stream
                if op == 'iadd':
                    recv = ins[0]
                elif ins and is_stream(ins[0]):
                    recv = tmo.Stream(None); recv.copy_thermal_condition(ins[0])      # what Stream.sum starts from
                else:
                    recv = None
            if not is_stream(recv) or (op != 'mix' and not all(is_stream(i) or i is None for i in ins)):
                if creates: objs.append(tmo.Stream(None))
                continue
            vle, eb = 'v' in flags, 'n' not in flags
            streams = [i for i in ins if is_stream(i) and not i.isempty()]
            Hs = [read(i, 'H') for i in streams]
            if any(h != h for h in Hs):                   # an inlet outside the property models: nothing to say
                if creates: objs.append(tmo.Stream(None))
                continue
            check_inlet_reads(streams, Hs, lambda sig, what: failures.append({'signature': sig, 'op_index': len(model_in), 'what': what}))
            Cs = [read(i, 'C') for i in streams]
            Q = qv * sum(c for c in Cs if c == c) if mode == 'dT' else qv
            heat = sum(float(i.heat) for i in ins if i is not None and not is_stream(i))
            toks = []
            for i in ins:
                if i is None: toks.append('n')
                elif not is_stream(i): toks.append(f'h:{fbits(i.heat)}')
                else:
                    toks.append(f's:{1 if i.isempty() else 0}:{fbits(read(i, "H") if not i.isempty() else 0.0)}:{fbits(i.P)}:'
                                f'{fbits(i.T)}:{ph_of(i)}:{chars(i.phase)}:{1 if i is recv else 0}')
            head = (f'mix r={st_of(recv)} rp={chars(recv.phase)} ins={";".join(toks) if toks else "-"} Q={fbits(Q)} '
                    f'cp={1 if cp else 0} eb={1 if eb else 0} vle={1 if vle else 0} kind=H')
            T0r, P0r, ph0r = recv.T, recv.P, ph_of(recv)
            Ps = [i.P for i in streams]
            alias = any(i is recv for i in streams)
            # what the inlets' material holds at the two ends of the range, each portion in its own phase
            lo = sum(value_at(i, 'H', T_LO) for i in streams); hi = sum(value_at(i, 'H', T_HI) for i in streams)
            rec = []; _REC = rec
            vrec = []; _VREC = vrec
            out = 'ok'
            Fin = sum(float(i.F_mol) for i in streams)
            snap = None
            if vle and eb and len(streams) >= 2:
                snap = {}
                for i in streams:
                    for ph in (i.phases if is_multi(i) else (i.phase,)):
                        row = i.imol[ph] if is_multi(i) else i.mol
                        arr = row.to_array() if hasattr(row, 'to_array') else list(row)
                        snap[ph] = [x + y for x, y in zip(snap.get(ph, [0.0] * len(arr)), arr)]
            ref_err = False
            Ts0 = streams[0].T if streams else None
            try:
                if op == 'mix': recv.mix_from(ins, energy_balance=eb, vle=vle, Q=Q, conserve_phases=cp)
                elif op == 'sum': recv = tmo.Stream.sum(ins, energy_balance=eb, vle=vle)
                elif op == 'radd': recv = 0 + ins[0]
                elif op == 'add': recv = ins[0] + ins[1]
                else: recv += ins[1]
            except Exception as e:
                out = 'raised'; tags.add('mix-raised:' + type(e).__name__ + (':' + str(e)[:60] if isinstance(e, ReferenceError) else ''))
                ref_err = isinstance(e, ReferenceError)      # numba / fork artefact inside the flash, not thermosteam's doing
            finally:
                _REC = None; _VREC = None
            if creates: objs.append(recv)
            if op != 'mix': tags.add('mix:via:' + op)
            N = len(streams)
            expected = (sum(Hs) + Q + heat) if N else 0.0
            Hread = read(recv, 'H')
            Crecv = read(recv, 'C')
            tol = (1e-9 * max([abs(expected), abs(Q), abs(heat)] + [abs(h) for h in Hs]) + 1e-12
                   + ALLOW_K * (last_slope(rec) if rec else (Crecv if vle and Crecv == Crecv else 0.0)))
            if vrec:
                v = vrec[-1]
                vres = f'ok:{fbits(v[2])}:{chars(v[3])}' if v[0] == 'ok' else 'ex'
                sp = v[1]
                if set(sp) == {'H', 'P'}: vs = f'H:{fbits(sp["H"])}:{fbits(sp["P"])}'
                elif set(sp) == {'T', 'P'}: vs = f'T:{fbits(sp["T"])}:{fbits(sp["P"])}'
                else:
                    vs = '-'
                    fail('mix:vle-spec', f'mix_from asked the flash for {sorted(sp)} (expected H, P with the energy balance, T, P without)')
            else:
                vres, vs = '-', '-'
            model_in.append(head + f' vspec={vs} vres={vres} sol={sol_tokens(rec)}')
            energy_claim = eb and N >= 1               # without the energy balance the property makes no enthalpy claim
            # the receiver's own temperature is the solver's starting point: it has to be a physical one as well
            start_ok = indom(T0r) and (all(indom(i.T) for i in streams) if eb else True)
            if vle and (any(set(ph_of(i)) & set('LSs') for i in streams) or set(ph0r) & set('LSs')):
                # `stream.vle(...)` works on the rows 'g' and 'l' only: material labelled 'L', 's' or 'S' — in an inlet, or because the
                # receiver's own phase tuple has such a row which then takes the liquid ('L' answers for 'l') — is left out of the flash,
                # which then does not reproduce the enthalpy it was asked for.  That is the flash's contract (C04), the
                # hypothesis VleSound of mix_vle_energy is not met: no verdict here, the step is correspondence-only.
                start_ok = False
                tags.add('mix:vle:second-liquid-phase-not-judged')
            if (type(recv.mixture).__name__ != 'IdealMixture'
                    and not (ph0r == 'g' and ph_of(recv) == 'g' and all(ph_of(i) == 'g' for i in streams))):
                # The equation-of-state package is exercised on gases only.  When a gas solve raises there, the setter's
                # fallback flips the stream to 'l' and accepts an EOS-liquid temperature whose enthalpy, read back, is not
                # the assigned one (≈ 1 in 600 histories): recorded as a finding outside this check; this step and
                # the steps that start from such a stream get no verdict.
                start_ok = False
                tags.add('package:pr:left-the-gas-phase-not-judged')
            if not start_ok:
                # an inlet (or, without energy balance, the receiver) is in a state outside the property's domain,
                # left there by an earlier step of the history: correspondence only, no verdict on this step
                tags.add('mix:start-out-of-domain')
            vx = bool(vrec) and vrec[-1][0] == 'ex'    # the flash raised: the state it left half-way is not compared
            outs.append(answer(recv, out, Hread, rec, tol, mode != 'huge' and start_ok and (energy_claim or N == 0))
                        + f' vs={vs} vx={1 if vx else 0} lost={1 if creates and out == "raised" else 0}')
            tags.add(f'mix:N={min(N, 2)}' + (':Q' if (Q or heat) else '') + (':cp' if cp else '') + (':alias' if alias else '')
                     + (':multi-recv' if is_multi(recv) else '') + (':vle' if vle else '') + ('' if eb else ':no-eb'))
            if streams and sum(i.F_mol for i in streams) < 1e-6: tags.add('mix:trace-flow')
            if any('L' in ph_of(i) for i in streams) and any('l' in ph_of(i) for i in streams): tags.add('mix:l+L-inlets')
            if N >= 2 and len({i.T for i in streams}) > 1 or (N >= 1 and (Q or heat)): nontrivial = True
            # ---- oracle: the property text on the real objects
            if not start_ok:
                pass
            elif not eb:
                # no energy balance: the temperature is not touched; the pressure only by a mix of two or more
                if out == 'ok':
                    if recv.T != T0r:
                        fail('mix:no-eb:T', f'energy_balance=False moved T from {T0r!r} to {recv.T!r} (N={N}, vle={vle})')
                    wantP = min(Ps) if N >= 2 else P0r
                    if recv.P != wantP:
                        fail('mix:pressure', f'receiver.P = {recv.P!r}, expected {wantP!r} (energy_balance=False, N={N})')
                elif not ref_err:
                    fail('mix:raised', f'mix_from(energy_balance=False) raised (N={N}, vle={vle})')
            elif N >= 1 and out == 'ok':
                if not abs(Hread - expected) <= tol:
                    fail('mix:energy:' + ('N=1' if N == 1 else 'alias' if alias else 'N>=2'),
                         f'receiver.H = {Hread!r} but Σ inlet.H + Q = {expected!r} (N={N} non-empty inlets, Q={Q!r}, '
                         f'heat objects {heat!r}, receiver {"is" if alias else "is not"} one of the inlets'
                         + (', vle=True' if vle else '') + ')')
                if recv.P != min(Ps):
                    fail('mix:pressure', f'receiver.P = {recv.P!r}, min P of the non-empty inlets = {min(Ps)!r}')
                if (N >= 2 and not vle and not (Q or heat) and all(not is_multi(i) for i in streams)
                        and len({(i.T, i.P, i.phase) for i in streams}) == 1 and ph_of(recv) == streams[0].phase):
                    # mix_isothermal: one phase, one temperature (and pressure), no heat: the balance determines T = T0
                    tags.add('mix:isothermal')
                    if not abs(recv.T - Ts0) <= 1e-6:
                        fail('mix:isothermal', f'inlets all {streams[0].phase} at T = {Ts0!r}, no heat, but the receiver ends at {recv.T!r}')
                if not abs(float(recv.F_mol) - Fin) <= 1e-9 * Fin:
                    # the enthalpy assigned belongs to the inlets' material: the receiver must hold all of it
                    # one documented way this happens: the receiver is one of the inlets, the first assignment raised, and the
                    # bare-except fallback of mix_from runs `self._imol.mix_from(streams)` a second time on the already
                    # mixed receiver (its own, now mixed, material is added again)
                    refallback = alias and any(r[0] == 'ex' for r in rec) and rec[-1][0] == 'ok'
                    fail('mix:material' + (':alias-fallback' if refallback else ''),
                         f'receiver holds {float(recv.F_mol)!r} kmol/hr, the non-empty inlets {Fin!r}'
                         + (' (receiver among the inlets, first assignment raised, the fallback mixed the material again)' if refallback else ''))
            elif N >= 1 and mode != 'huge':
                # raised although the heat input is moderate: is the target inside the range of the models?
                if lo == lo and hi == hi and lo <= expected <= hi:
                    # where would the balance put the mixture?  (bisection on the inlets' own enthalpy functions)
                    a_, b_ = T_LO, T_HI
                    for _ in range(50):
                        mid_ = 0.5 * (a_ + b_)
                        if sum(value_at(i, 'H', mid_) for i in streams) <= expected: a_ = mid_
                        else: b_ = mid_
                    if abs(a_ - T0r) > FAR_K and not vle:
                        # the H setter inside mix_from starts from the receiver's old temperature: the documented
                        # far-start weakness of the Aitken-accelerated Newton iteration (same signature as for the setters)
                        fail('set:raised:far-start', f'mix_from raised: the receiver starts at T = {T0r!r}, the balance puts the '
                                                     f'mixture at about {a_!r} K, more than 100 K away')
                        continue
                    if vx and snap is not None and set(snap) <= set('gl') and set(vrec[-1][1]) == {'H', 'P'}:
                        # the flash raised.  Is that mix_from's doing?  The same flash — the inlets' material by phase, the
                        # enthalpy Σ inlet.H + Q, the lowest pressure — is run on a stream of its own: if it raises there
                        # too, the flash fails by itself on this input (its contract, C04), not the mixing
                        alone = None
                        try:
                            f_ = tmo.MultiStream(None, phases=('g', 'l'), T=T0r, P=min(Ps))
                            for ph, arr in snap.items(): f_.imol[ph] = arr
                            f_.vle(H=expected, P=min(Ps)); alone = True
                        except Exception:
                            alone = False
                        if alone is True and ref_err:
                            continue        # numba / fork artefact inside this one flash call: no verdict
                        if alone is False:
                            fail('mix:raised:flash-fails-standalone',
                                 f'mix_from(vle=True) raised inside stream.vle(H={expected!r}, P={min(Ps)!r}); the same flash on a fresh '
                                 f'MultiStream holding the inlets\' material raises as well')
                            continue
                    if ref_err: continue            # `ReferenceError: underlying object has vanished` (numba cache / fork), not judged
                    fail('mix:raised', f'mix_from raised although Σ inlet.H + Q = {expected!r} lies between Σ H(250 K) = {lo!r} '
                                       f'and Σ H(500 K) = {hi!r} of the inlets\' material')
        elif op in ('sep', 'isub'):
            # `sep a b` -> a.separate_out(b);  `isub a b` -> a -= b
            a = objs[int(t[1])]
            b = objs[int(t[2])]
            if not is_stream(a) or not (b is None or is_stream(b)): continue
            if op == 'isub' and b is None: continue
            Ha = read(a, 'H'); Hb = read(b, 'H') if b is not None else 0.0
            if Ha != Ha or Hb != Hb: continue
            check_inlet_reads([x for x in (a, b) if x is not None], [Ha, Hb][:2 if b is not None else 1],
                              lambda sig, what: failures.append({'signature': sig, 'op_index': len(model_in), 'what': what}))
            b_empty = b is not None and b.isempty()
            head = (f'sep r={st_of(a)} Hs={fbits(Ha)} Ho={fbits(Hb)} none={1 if b is None else 0} '
                    f'oe={1 if b_empty else 0} same={1 if a is b else 0}')
            Ta, Pa, pha = a.T, a.P, ph_of(a)
            start_ok = indom(a.T) and (b is None or b.isempty() or indom(b.T))
            rec = []; _REC = rec
            out = 'ok'
            try:
                if op == 'sep': a.separate_out(b)
                else: a -= b
            except Exception as e:
                out = 'raised'; tags.add('sep-raised:' + type(e).__name__)
            finally:
                _REC = None
            expected = Ha if (b is None or b_empty) else (0.0 if a is b else Ha - Hb)
            Hread = read(a, 'H')
            tol = 1e-9 * max(abs(Ha), abs(Hb)) + ALLOW_K * last_slope(rec) + 1e-12
            model_in.append(head + f' ea={1 if a.isempty() else 0} kind=H sol={sol_tokens(rec)}')
            outs.append(answer(a, out, Hread, rec, tol, start_ok))
            if is_multi(a) or (b is not None and is_multi(b)): tags.add('sep:multi-phase')
            if b is not None and is_multi(a) != is_multi(b): tags.add('sep:stream-vs-multistream')
            if op == 'isub': tags.add('sep:via:isub')
            if b is not None and is_multi(a) and any(b is a._streams.get(ph) for ph in a.phases): tags.add('sep:own-phase-view')
            tags.add('sep' + (':none' if b is None else ':empty-other' if b_empty else ':same' if a is b else
                              f':{"sameT" if b.T == Ta else "otherT"}:{"samephase" if ph_of(b) == pha else "otherphase"}'))
            if (b is None or b_empty) and (out != 'ok' or rec or a.T != Ta or a.P != Pa or ph_of(a) != pha):
                fail('sep:noop', f'separate_out of {"None" if b is None else "an empty stream"} is not a no-op: outcome {out}, '
                                 f'{len(rec)} solver call(s), T {Ta!r} → {a.T!r}, P {Pa!r} → {a.P!r}, phase {pha} → {ph_of(a)}')
            if b is not None and a is not b and not b.isempty(): nontrivial = True
            if not start_ok:
                tags.add('sep:start-out-of-domain')      # a state outside the property's domain: no verdict on this step
            elif out == 'ok':
                if (b is not None and a is not b and not b_empty and not is_multi(a) and not is_multi(b) and not a.isempty()
                        and b.T == Ta and b.P == Pa and ph_of(b) == pha and ph_of(a) == pha):
                    # separate_isothermal: a share in the stream's own phase at its own temperature leaves T where it was
                    tags.add('sep:isothermal')
                    if not abs(a.T - Ta) <= 1e-6:
                        fail('sep:isothermal', f'a share at the same T = {Ta!r}, P and phase was separated out, T moved to {a.T!r}')
                if not abs(Hread - expected) <= tol:
                    fail('sep:energy', f'after separate_out H = {Hread!r}, H_before − other.H = {expected!r}')
            else:
                lo, hi = value_at(a, 'H', T_LO), value_at(a, 'H', T_HI)
                if lo == lo and hi == hi and lo <= expected <= hi and min(a.mol.to_array() if hasattr(a.mol, 'to_array') else a.mol) >= 0:
                    fail('sep:raised', f'separate_out raised although H_before − other.H = {expected!r} lies between '
                                       f'H(250 K) = {lo!r} and H(500 K) = {hi!r} of the remaining material')
        elif op == 'iter':
            # one step of the fixed-point maps the temperature solvers iterate (thermosteam/mixture/mixture.py), called
            # with stub property functions that return the given numbers: `iter <HP|xHP|SP|xSP> <T> <X> <X(T)> <Cn>`
            kind, T, X, XT, Cn = t[1], float(t[2]), float(t[3]), float(t[4]), float(t[5])
            import thermosteam.mixture.mixture as mm
            f = getattr(mm, {'HP': 'iter_T_at_HP', 'xHP': 'xiter_T_at_HP', 'SP': 'iter_T_at_SP', 'xSP': 'xiter_T_at_SP'}[kind])
            try:
                if kind[0] == 'x': nxt = f(T, X, lambda pm, T_, P_: XT, (), 101325., lambda pm, T_, P_=None: Cn, [0, None])
                else: nxt = f(T, X, lambda ph, m, T_, P_: XT, 'l', None, 101325., lambda ph, m, T_, P_=None: Cn, [0, None])
                ans = f'next={fbits(float(nxt))}'
            except Exception as e:
                nxt = None; ans = 'next=raised'
            model_in.append(f'iter kind={kind} T={fbits(T)} X={fbits(X)} XT={fbits(XT)} Cn={fbits(Cn)}')
            outs.append(ans)
            tags.add('iter:' + kind + (':solution' if X == XT else ''))
            # the property behind the solvers: a temperature is a fixed point of the map exactly when it solves X(T) = X
            # (newton_fixed_point_iff / entropy_step_fixed_point_iff); the step moves towards the solution
            if nxt is not None:
                if X == XT and nxt != T:
                    fail('iter:solution-not-fixed', f'{kind}: X(T) = X = {X!r} but the step moves T from {T!r} to {nxt!r}')
                want_up = (X > XT) == (Cn > 0)
                if X != XT and not (nxt > T if want_up else nxt < T):
                    fail('iter:fixed-point-not-solution', f'{kind}: X = {X!r}, X(T) = {XT!r}, Cn = {Cn!r}: the step goes from '
                                                          f'{T!r} to {nxt!r} (it must move towards the solution)')
        elif op == 'set':
            s = objs[int(t[1])]
            kind, mode, th = t[2], t[3], float(t[4])
            if not is_stream(s): continue
            via_Hnet = kind == 'Hnet'          # `stream.Hnet = v` is `stream.H = v - stream.Hf`
            if via_Hnet: kind = 'H'
            empty = s.isempty()
            if empty and kind == 'h': continue
            reachable = False
            if mode == 'zero':
                x = 0.0
                lo, hi = value_at(s, kind, T_LO), value_at(s, kind, T_HI)
                reachable = (not empty) and lo == lo and hi == hi and lo <= 0.0 <= hi     # e.g. H of a liquid (0 at 298.15 K)
            elif mode == 'abs':
                x = th
            elif mode == 'cur':
                x = read(s, kind)
            else:
                other = None
                if mode == 'cross' and not is_multi(s) and s.phase in 'lg':
                    other = 'g' if s.phase == 'l' else 'l'
                if mode == 'cross' and other is None: continue
                lo, hi = value_at(s, kind, T_LO, other), value_at(s, kind, T_HI, other)
                x = lo + th * (hi - lo)
                reachable = mode == 'lerp'
            if x != x: continue
            T0, ph0 = s.T, ph_of(s)
            head = f'set r={st_of(s)} x={fbits(x)}'
            rec = []; _REC = rec
            out = 'ok'
            if via_Hnet:
                Hf = float(s.Hf); v = x + Hf; x = v - Hf          # the value the setter hands on
                head = f'set r={st_of(s)} x={fbits(x)}'
                tags.add('set:via:Hnet')
            try:
                if via_Hnet: s.Hnet = v
                else: setattr(s, kind, x)
            except Exception as e:
                out = 'raised'; tags.add(f'set-raised:{kind}:' + type(e).__name__)
            finally:
                _REC = None
            back = read(s, kind) if not s.isempty() or kind != 'h' else 0.0
            tk = 'Sg' if kind == 'S' and ph0 == 'g' and ph_of(s) == 'g' else kind      # tolerance class
            left_dom = out == 'ok' and bool(rec) and not indom(s.T)     # the assignment "succeeded" at an unphysical temperature
            start_ok = indom(T0)                                         # else: a state an earlier step left outside the domain
            if type(s.mixture).__name__ != 'IdealMixture' and not (ph0 == 'g' and ph_of(s) == 'g'):
                start_ok = False; tags.add('package:pr:left-the-gas-phase-not-judged')
            tol = RTOL[tk] * abs(x) + (ALLOW_K * last_slope(rec) if not left_dom else 0.0) + 1e-12
            model_in.append(head + f' kind={tk} sol={sol_tokens(rec)}')
            in_q = mode in ('lerp', 'cur', 'cross') or (mode == 'zero' and reachable)      # inside the property's quantifier
            outs.append(answer(s, out, back, rec, tol, in_q and start_ok))
            flipped = ph_of(s) != ph0
            if not empty and s.F_mol < 1e-6: tags.add(f'set:{kind}:trace-flow')
            if is_multi(s) and 'l' in s.phases and 'L' in s.phases and not s.imol['l'].sum() == 0 and not s.imol['L'].sum() == 0:
                tags.add(f'set:{kind}:two-liquid-phases')
            tags.add(f'set:{kind}:{mode}:{"multi" if is_multi(s) else ph0}' + (':flipped' if flipped else '')
                     + (':' + out if out != 'ok' else ''))
            if abs(s.T - T0) > 1e-3: nontrivial = True
            if empty or not in_q: continue                     # the property speaks about non-empty streams and reachable targets
            if not start_ok:
                tags.add('set:start-out-of-domain'); continue  # the stream was outside the property's domain already
            readback_ok = abs(back - x) <= tol
            if via_Hnet and out == 'ok' and not abs(float(s.Hnet) - v) <= tol + 1e-12 * abs(Hf):
                fail('set:readback:Hnet', f'assigned Hnet = {v!r}, read back {float(s.Hnet)!r}')
            if out == 'ok' and (not readback_ok or (left_dom and mode in ('lerp', 'cur', 'zero'))):
                # The value read back differs, or a target between the stream's values at 250 K and 500 K was "reached" at a
                # temperature outside [150, 1500] K.  Where the real property function is not strictly increasing at the
                # solver's scale (thermo's noisy liquid entropy) this is the known solver failure in another guise:
                # the iteration wandered off instead of raising.
                # the iteration wandered off instead of raising.  That excuse needs the SOLVER to be at fault (its last call
                # raised or returned a temperature that does not reproduce the target it was given) or the value read back
                # to be right (a consistent answer at an unphysical temperature after the phase flip); a setter that
                # misuses sound solver answers is not excused.
                _TSTAR[0] = None
                mono = micro_monotone(s, kind, x, None if is_multi(s) else ph0) if kind == 'S' else None
                # Independent evidence first (the real S function only): bisection brackets a root in [250, 500] K and S is
                # not strictly increasing at the solver's scale around it; then, as a further necessary condition, the
                # smooth re-run.  Two guises are told apart:
                #  * the value read back is right (within the noise tolerance) but the temperature is unphysical — the
                #    liquid solve failed and the fallback found a consistent answer in the other phase: same signature as
                #    the raise;
                #  * the value read back is wrong AND the temperature is outside [150, 1500] K AND the solver's last
                #    answer does not reproduce its own target — the iteration wandered off: its own signature.
                # A wrong read-back at a physical temperature is never excused.
                documented = mono is False and noise_is_cause(s, T0, ph0, _TSTAR[0]) is True
                excused = documented and readback_ok
                wandered = documented and not readback_ok and left_dom and last_call_unsound(rec, RTOL[tk])
                # the documented far-start weakness in its other guise: the solve in the stream's own phase raised (the
                # solution lies more than 100 K from the start, the property function is smooth and increasing there), and
                # the fallback found a consistent answer in the other phase at an unphysical temperature
                far_flip = False
                if not documented and readback_ok and left_dom and rec and rec[0][0] == 'ex':
                    _TSTAR[0] = None
                    far_flip = (micro_monotone(s, kind, x, None if is_multi(s) else ph0) is True
                                and _TSTAR[0] is not None and abs(_TSTAR[0] - T0) > FAR_K)
                sig = ('set:raised:S:model-not-monotone' if excused else
                       'set:raised:far-start' if far_flip else
                       'set:left-domain:S:model-not-monotone' if wandered else
                       f'set:readback:{kind}' if not readback_ok else f'set:left-domain:{kind}')
                fail(sig, f'assigned {kind} = {x!r} to a {ph0} stream, read back {back!r} '
                          f'(T {T0!r} → {s.T!r}, phase now {ph_of(s)})'
                          + (' (the property function is not strictly increasing at the 2e-6 K scale around the solution)'
                             if excused or wandered else ''))
            if out == 'ok':
                # the solver's own T_tol; where liquid entropy is involved, the float noise of thermo's
                # liquid entropy integral (the rtol of the S hypothesis) divided by the slope dS/dT
                Ttol = 1e-6
                if kind == 'S' and ph0 != 'g': Ttol += RTOL['S'] * abs(x) / max(last_slope(rec), 1e-300)
                if mode == 'cur' and not flipped and not abs(s.T - T0) <= Ttol:
                    fail(f'set:idempotent:{kind}', f'assigning the current {kind} moved T from {T0!r} to {s.T!r}')
            elif reachable or mode == 'cur':
                # the theorems need X strictly increasing in T; thermo's liquid HEOS_FIT entropy integral is a noisy step
                # function at the 1e-3 J/mol/K scale, on which the Aitken / secant iteration stalls (y1 == y0) or jumps
                # out of range.  Where the real property function is not strictly increasing at the solver's scale the
                # failure gets its own signature (hypothesis unmet; root cause outside thermosteam).
                _TSTAR[0] = None
                mono = micro_monotone(s, kind, x, None if is_multi(s) else ph0)
                # a second, rarer circumstance (about 1 in 6000 enthalpy targets, liquids holding propane): the property
                # function is smooth and increasing, but the Aitken-accelerated Newton iteration, started more than 100 K
                # away from the solution with a heat capacity that varies by a factor 2 on the way, overshoots below the
                # range of the property models, which raise
                far = mono is True and _TSTAR[0] is not None and abs(_TSTAR[0] - T0) > FAR_K
                if mono is False and kind == 'S' and noise_is_cause(s, T0, ph0, _TSTAR[0]) is not True:
                    mono = None          # the library's solver fails on the smoothed entropy as well: not the known defect
                fail('set:raised:far-start' if far else f'set:raised:{kind}' + (':model-not-monotone' if mono is False else ''),
                     f'assigning {kind} = {x!r} (between the values at 250 K and 500 K) to a {ph0} stream '
                     f'at T = {T0!r} raised' + (' (the property function is not strictly increasing at the 2e-6 K scale '
                                                'around the solution)' if mono is False else
                                                f' (the solution lies at {_TSTAR[0]!r} K, more than 100 K away)' if far else ''))
        else:
            raise ValueError('unknown op ' + line)
    return model_in, outs, failures, sorted(tags), nontrivial


def run_impl(case: Case) -> ImplResult:
    model_in, outs, failures, tags, nontrivial = run_ops(case.ops)
    return ImplResult(model_in=model_in, outs=outs, failures=failures, tags=tags,
                      nontrivial=(tuple(case.ops) if nontrivial else None))


# ----------------------------------------------------------------------------------------------
# comparison of an implementation answer with a model answer
# ----------------------------------------------------------------------------------------------

def _kv(line):
    return dict(tok.split('=', 1) for tok in line.split(' ') if '=' in tok)


def compare(impl, model):
    if model == 'bad-op' or impl == model: return impl == model
    a, b = _kv(impl), _kv(model)
    dom = a.get('dom', '1') == '1'
    vx = a.get('vx', '0') == '1'
    # a flash that raised (vx) leaves a half-way state — for Stream.sum / + / 0+ not even the new stream is returned:
    # only the outcome and the pressure are compared then
    for k in ('out', 'calls', 'q') + (('hyp',) if dom else ()) + (() if vx else ('ph', 'e')):
        if a.get(k) != b.get(k): return False
    va, vb = a.get('vs', '-').split(':'), b.get('vs', '-').split(':')
    if va[0] != vb[0]: return False
    try:
        if a.get('lost', '0') == '1': return True      # Stream.sum / + / 0+ raised: no stream came back, only the outcome is comparable
        if from_fbits(a['P']) != from_fbits(b['P']): return False
        Ta, Tb = from_fbits(a['T']), from_fbits(b['T'])
        if not vx and not (abs(Ta - Tb) <= 1e-6): return False
        if va[0] in 'HT':        # the flash was asked for the same thing: H within the enthalpy tolerance, T and P exactly
            x, y = from_fbits(va[1]), from_fbits(vb[1])
            if not (abs(x - y) <= (from_fbits(a['tolH']) if va[0] == 'H' else 0.0)): return False
            if from_fbits(va[2]) != from_fbits(vb[2]): return False
        if a['out'] == 'ok' and dom and a.get('hyp') == 'ok':     # no read-back promise once the solver hypothesis is unmet
            Ha, Hb = from_fbits(a['H']), from_fbits(b['H'])
            if not (abs(Ha - Hb) <= from_fbits(a['tolH'])): return False
    except (KeyError, ValueError, AssertionError):
        return False
    return True


def disagree_signature(case, res, first):
    op = res.model_in[first].split(' ')[0] if first < len(res.model_in) else 'length'
    return 'disagree:' + op


def model_tags(line):
    d = _kv(line)
    out = []
    if 'tag' in d: out.append('tag=' + d['tag'])
    if d.get('hyp', 'ok') != 'ok': out.append('hyp=' + d['hyp'].split('@')[0])
    return out


# ----------------------------------------------------------------------------------------------
# generation
# ----------------------------------------------------------------------------------------------

def r6(x): return repr(float(f'{x:.6g}'))


def gen_flows(rng, empty=False, trace=False):
    """flows in kmol/hr; `trace`: a non-empty stream of about 1e-9..1e-8 kmol/hr in all (heat-capacity flow below
    1e-6 kJ/hr/K): still inside the property's quantifier"""
    if empty: return ','.join(['0'] * len(CHEMS))
    scale = rng.choice([1e-10, 3e-10, 1e-9]) if trace else (rng.choice([1e3, 1e5]) if rng.random() < 0.03 else 1.0)
    fl = [0.0 if rng.random() < 0.45 else float(f'{rng.uniform(0.1, 50) * scale:.4g}') for _ in CHEMS]
    if not any(fl): fl[rng.randrange(len(CHEMS))] = float(f'{rng.uniform(0.1, 50) * scale:.4g}')
    return ','.join(repr(x) for x in fl)


def gen_T(rng): return r6(rng.uniform(T_LO, T_HI))
def gen_P(rng): return r6(10 ** rng.uniform(4, 7)) if rng.random() < 0.8 else '101325.0'


def ops_kind(ops, index):
    """the op that created object number `index`"""
    k = -1
    for o in ops:
        w = o.split(' ')[0]
        if w in ('S', 'M', 'MP', 'Q', 'W', 'N', 'sub', 'sum', 'add', 'radd', 'proxy', 'view', 'copy', 'flowproxy'):
            k += 1
            if k == index: return w
    return None


def nobj(ops):
    return sum(1 for o in ops if o.split(' ')[0] in ('S', 'M', 'MP', 'Q', 'W', 'N', 'sub', 'sum', 'add', 'radd', 'proxy', 'view', 'copy', 'flowproxy'))


def gen_stream(rng, ops, empty=None, trace=False):
    """append a stream-creating op; returns the object index (objects are numbered in creation order)"""
    if empty is None: empty = rng.random() < 0.15
    r = rng.random()
    if r < 0.04:
        return gen_multi(rng, ops, empty, trace)
    if r < 0.13:
        fg = gen_flows(rng, empty or rng.random() < 0.15, trace)
        fl = gen_flows(rng, empty or rng.random() < 0.15, trace)
        ops.append(f'M {gen_T(rng)} {gen_P(rng)} {fg}|{fl}')
    else:
        ph = 'l' if r < 0.53 else 'L' if r < 0.58 else 's' if r < 0.61 else 'g'   # 'L': a second liquid phase; 's': a solid
        ops.append(f'S {ph} {gen_T(rng)} {gen_P(rng)} {gen_flows(rng, empty, trace)}')
    return nobj(ops) - 1


def gen_multi(rng, ops, empty, trace=False):
    """a MultiStream over a phase tuple other than the usual ('g', 'l') as well, two liquid phases included"""
    phs = rng.choice(['gl', 'gl', 'ls', 'gs', 'gls', 'lL', 'lL', 'glL'])
    rows = '|'.join(gen_flows(rng, empty or rng.random() < 0.3, trace) for _ in phs)
    ops.append(f'MP {phs} {gen_T(rng) if not empty else "298.15"} {gen_P(rng) if not empty else "101325.0"} {rows}')
    return nobj(ops) - 1


def gen_flags(rng):
    r = rng.random()
    return 'v' if r < 0.10 else 'n' if r < 0.20 else 'vn' if r < 0.24 else ''


def gen_Q(rng, sane=False):
    r = rng.random()
    if r < 0.35: return 'abs', '0.0'
    if r < 0.88 or sane: return 'dT', r6(rng.uniform(-40, 40) if not sane else rng.uniform(-15, 15))
    if r < 0.95: return 'abs', r6(rng.uniform(-3e4, 3e4))
    return 'huge', r6(rng.choice([1e9, -1e9, -3e7, 1e8]))


def gen_alias_history(rng):
    """histories in which two handles share data: (a) the phase view of a MultiStream is separated out of its parent
    (`parent.separate_out(parent['g'])`, `parent -= parent['l']`); (b) a stream and its proxy: read at T1, go to T2 through
    one handle and read through the other, come back to exactly T1, then use the stream as an inlet / in a separation"""
    ops = []
    r0 = rng.random()
    if r0 < 0.18:
        # (e) the property memo of a MultiStream across a phase-split-only edit: H or S is read, material moves between
        # the phases at constant T, P and overall composition, then H / S is used again (inlet, separation, X = X).
        # Flows are multiples of 1/4 with a total of 64 so that every number involved is exact in binary.
        other = gen_stream(rng, ops, empty=False)
        recv = add_obj(ops, f'S {rng.choice("lg")} 298.15 101325.0 {gen_flows(rng, True)}')
        X = rng.choice(['H', 'H', 'S'])
        if rng.random() < 0.7:
            i, j = rng.sample(range(len(CHEMS)), 2)
            q = [rng.randrange(1, 60) / 4 for _ in range(3)]
            last = 64 - sum(q)
            g = ['0'] * len(CHEMS); l = ['0'] * len(CHEMS)
            g[i], g[j], l[i], l[j] = repr(q[0]), repr(q[1]), repr(q[2]), repr(last)
            a = add_obj(ops, f'M {gen_T(rng)} {gen_P(rng)} {",".join(g)}|{",".join(l)}')
            ops.append(f'rd {a} {X}')
            for _ in range(rng.choice([1, 1, 2])):
                frm, to = rng.choice([('g', 'l'), ('l', 'g')])
                ops.append(f'move {a} {rng.choice([i, j])} {rng.randrange(1, 40) / 4!r} {frm} {to}')
                if rng.random() < 0.3: ops.append(f'rd {a} {rng.choice(["H", "S", "C"])}')
        else:
            k = rng.randrange(len(CHEMS) - 1) if rng.random() < 0.8 else 0          # a pure chemical (not glycerol/propane-only oddities)
            fl = ['0'] * len(CHEMS); fl[k] = '16.0'
            a = add_obj(ops, f'M 350.0 101325.0 {",".join(["0"] * len(CHEMS))}|{",".join(fl)}')
            ops.append(f'vleV {a} {rng.choice([0.25, 0.5])}')
            ops.append(f'rd {a} {X}')
            ops.append(f'vleV {a} {rng.choice([0.75, 0.125])}')
        r = rng.random()
        if r < 0.3: ops.append(f'set {a} {X} cur 0')
        elif r < 0.75:
            mode, q_ = gen_Q(rng, sane=True)
            ops.append(f'mix {recv} {a},{other} {mode} {q_} 0')
        elif r < 0.9: add_obj(ops, f'sum {a},{other}')
        else:
            fr = ','.join(r6(rng.uniform(0, 0.6)) for _ in CHEMS)
            b = add_obj(ops, f'sub {a} {fr} {r6(rng.uniform(-20, 20))} same 1.0')
            ops.append(f'sep {a} {b}')
        return Case(ops, {'history': True})
    r0 = rng.random()
    if r0 < 0.34:
        # (c) the property memo across a composition-only edit: two different properties are read, one flow is changed
        # in place (phase, T, P untouched), one of the two is read again, then the OTHER one is used — as an inlet of a mix,
        # in a separation, or re-assigned to the stream (which must not move T)
        multi = rng.random() < 0.25
        a = (add_obj(ops, f'M {gen_T(rng)} {gen_P(rng)} {gen_flows(rng)}|{gen_flows(rng)}') if multi
             else add_obj(ops, f'S {rng.choice("lg")} {gen_T(rng)} {gen_P(rng)} {gen_flows(rng)}'))
        other = gen_stream(rng, ops, empty=False)
        recv = add_obj(ops, f'S {rng.choice("lg")} 298.15 101325.0 {gen_flows(rng, True)}')
        X, Y = rng.sample(['H', 'S', 'C', 'h'], 2)
        if rng.random() < 0.7: X = rng.choice(['H', 'H', 'S'])
        if Y == X: Y = 'C'
        ops.append(f'rd {a} {X}'); ops.append(f'rd {a} {Y}')
        for _ in range(rng.choice([1, 1, 2])):
            ops.append(f'flow {a} {rng.randrange(len(CHEMS))} {r6(rng.uniform(0.5, 60))}' + (f' {rng.choice("gl")}' if multi else ''))
        ops.append(f'rd {a} {Y}')
        r = rng.random()
        if X == 'S' or r < 0.3:
            ops.append(f'set {a} {X if X in ("H", "S", "h") else "H"} cur 0')
        elif r < 0.75:
            mode, q = gen_Q(rng, sane=True)
            ops.append(f'mix {recv} {a},{other} {mode} {q} 0')
        elif r < 0.9 or multi:
            add_obj(ops, f'sum {a},{other}')
        else:
            fr = ','.join(r6(rng.uniform(0, 0.6)) for _ in CHEMS)
            b = add_obj(ops, f'sub {a} {fr} {r6(rng.uniform(-20, 20))} same 1.0')
            ops.append(f'sep {a} {b}')
        return Case(ops, {'history': True})
    if r0 < 0.55:
        # (d) a stream and its copy (or flow proxy, or a stream made equal with copy_like): they are independent from then
        # on — one is changed (T, a flow, an H or S assignment) and read, the other, unchanged, is then read / used as an
        # inlet / separated / re-assigned its own value, and both may be mixed together
        multi = rng.random() < 0.25
        a = (add_obj(ops, f'M {gen_T(rng)} {gen_P(rng)} {gen_flows(rng)}|{gen_flows(rng)}') if multi
             else add_obj(ops, f'S {rng.choice("lg")} {gen_T(rng)} {gen_P(rng)} {gen_flows(rng)}'))
        other = gen_stream(rng, ops, empty=False)
        recv = add_obj(ops, f'S {rng.choice("lg")} 298.15 101325.0 {gen_flows(rng, True)}')
        X = rng.choice(['H', 'H', 'S', 'C'])
        if rng.random() < 0.8: ops.append(f'rd {a} {X}')
        r = rng.random()
        if r < 0.7: c = add_obj(ops, f'copy {a}')
        elif r < 0.85: c = add_obj(ops, f'flowproxy {a}')
        else:
            c = add_obj(ops, f'S l 298.15 101325.0 {gen_flows(rng, True)}' if not multi else f'M 298.15 101325.0 {gen_flows(rng, True)}|{gen_flows(rng, True)}')
            ops.append(f'copylike {c} {a}')
        changed, kept = (c, a) if rng.random() < 0.6 else (a, c)
        r = rng.random()
        if r < 0.4: ops.append(f'T {changed} {gen_T(rng)}')
        elif r < 0.7: ops.append(f'set {changed} {rng.choice(["H", "S"])} lerp {r6(rng.uniform(0.1, 0.9))}')
        elif r < 0.85 and not ops[-1].startswith('flowproxy'):
            ops.append(f'flow {changed} {rng.randrange(len(CHEMS))} {r6(rng.uniform(0.5, 60))}' + (f' {rng.choice("gl")}' if multi else ''))
        else: ops.append(f'T {changed} {gen_T(rng)}')
        ops.append(f'rd {changed} {X if rng.random() < 0.8 else "H"}')
        r = rng.random()
        if r < 0.25:
            ops.append(f'set {kept} {X if X in ("H", "S") else "H"} cur 0')
        elif r < 0.65:
            mode, q = gen_Q(rng, sane=True)
            ops.append(f'mix {recv} {kept},{other}' + (f',{changed}' if rng.random() < 0.4 else '') + f' {mode} {q} 0')
        elif r < 0.85 or multi:
            add_obj(ops, f'sum {kept},{other}')
        else:
            fr = ','.join(r6(rng.uniform(0, 0.6)) for _ in CHEMS)
            b = add_obj(ops, f'sub {kept} {fr} {r6(rng.uniform(-20, 20))} same 1.0')
            ops.append(f'sep {kept} {b}')
        return Case(ops, {'history': True})
    if r0 < 0.78:
        T = gen_T(rng)
        a = add_obj(ops, f'M {T} {gen_P(rng)} {gen_flows(rng)}|{gen_flows(rng)}')
        if rng.random() < 0.5: ops.append(f'rd {a} H')
        v = add_obj(ops, f'view {a} {rng.choice("gl")}')
        if rng.random() < 0.5: ops.append(f'rd {v} H')
        ops.append(f'{rng.choice(["sep", "sep", "isub"])} {a} {v}')
        if rng.random() < 0.5: gen_set(rng, ops, a)
        if rng.random() < 0.4:
            v2 = add_obj(ops, f'view {a} {rng.choice("gl")}')
            ops.append(f'sep {a} {v2}')
    else:
        T1, T2 = gen_T(rng), gen_T(rng)
        multi = rng.random() < 0.3
        a = (add_obj(ops, f'M {T1} {gen_P(rng)} {gen_flows(rng)}|{gen_flows(rng)}') if multi
             else add_obj(ops, f'S {rng.choice("lg")} {T1} {gen_P(rng)} {gen_flows(rng)}'))
        other = gen_stream(rng, ops, empty=False)
        recv = add_obj(ops, f'S {rng.choice("lg")} 298.15 101325.0 {gen_flows(rng, True)}')
        ops.append(f'rd {a} {rng.choice(["H", "H", "S", "C"])}')
        p_ = add_obj(ops, f'proxy {a}')
        first, second = (a, p_) if rng.random() < 0.5 else (p_, a)
        ops.append(f'T {first} {T2}')
        ops.append(f'rd {second if rng.random() < 0.8 else first} H')
        ops.append(f'T {rng.choice([a, p_])} {T1}')
        r = rng.random()
        user = rng.choice([a, p_])
        if r < 0.6:
            mode, q = gen_Q(rng, sane=True)
            ops.append(f'mix {recv} {user},{other} {mode} {q} 0')
        elif r < 0.8:
            add_obj(ops, f'sum {user},{other}')
        elif not multi:
            fr = ','.join(r6(rng.uniform(0, 0.6)) for _ in CHEMS)
            b = add_obj(ops, f'sub {user} {fr} {r6(rng.uniform(-20, 20))} same 1.0')
            ops.append(f'sep {user} {b}')
        else:
            ops.append(f'set {user} H cur 0')
    return Case(ops, {'history': True})


def gen_pr_history(rng):
    """gas-phase streams of the Peng-Robinson package: an entropy / enthalpy assignment on one stream, then energy-balanced
    mixes of OTHER streams, then more assignments — the equation-of-state mixture caches its arguments per solve, so what
    one operation leaves behind is what the next one reads"""
    ops = ['PKG pr']
    def gas():
        return add_obj(ops, f'S g {r6(rng.uniform(300, 480))} {r6(10 ** rng.uniform(5, 6.9))} {gen_flows(rng)}')
    pool = [gas() for _ in range(3)]
    recv = add_obj(ops, f'S g 298.15 101325.0 {gen_flows(rng, True)}')
    for _ in range(rng.randrange(3, 7)):
        r = rng.random()
        if r < 0.45:
            kind = rng.choice(['S', 'S', 'H', 'h'])
            tgt = rng.choice(pool + [recv])
            ops.append(f'set {tgt} {kind} lerp {r6(rng.uniform(0.2, 0.8))}' if rng.random() < 0.7 else f'set {tgt} {kind} cur 0')
        else:
            ins = rng.sample(pool, 2) + ([recv] if rng.random() < 0.3 else [])
            mode, q = gen_Q(rng, sane=True)
            ops.append(f'mix {recv} {",".join(map(str, ins))} {mode} {q} 0')
    return Case(ops, {'history': True, 'package': 'pr'})


def gen_history(rng):
    """3-6 operations on ONE receiver: mix, assign, mix again with the receiver among the inlets, separate, assign ... —
    every step is judged by the energy / pressure / read-back oracles; state left behind by one call is the next call's input"""
    ops = []
    trace = rng.random() < 0.05
    pool = [gen_stream(rng, ops, empty=False, trace=trace) for _ in range(rng.choice([2, 3]))]
    r = rng.random()
    if r < 0.6: recv = add_obj(ops, f'S {rng.choice("lg")} 298.15 101325.0 {gen_flows(rng, True)}')
    elif r < 0.8: recv = gen_multi(rng, ops, True)
    else: recv = add_obj(ops, f'S {rng.choice("lg")} {gen_T(rng)} {gen_P(rng)} {gen_flows(rng)}')
    mode, q = gen_Q(rng, sane=True)
    ops.append(f'mix {recv} {",".join(map(str, pool))} {mode} {q} 0 {gen_flags(rng)}'.rstrip())
    for _ in range(rng.randrange(3, 7)):
        r = rng.random()
        if r < 0.40:
            ins = []
            if rng.random() < 0.6: ins.append(recv)
            for _ in range(rng.choice([1, 1, 2])):
                ins.append(rng.choice(pool) if rng.random() < 0.5 else gen_stream(rng, ops, empty=rng.random() < 0.1, trace=trace))
            if rng.random() < 0.15: ins.append(add_obj(ops, f'Q {r6(rng.uniform(-2e4, 2e4))}'))
            rng.shuffle(ins)
            mode, q = gen_Q(rng, sane=True)
            cp = '1' if rng.random() < 0.12 else '0'
            ops.append(f'mix {recv} {",".join(map(str, ins))} {mode} {q} {cp} {gen_flags(rng)}'.rstrip())
        elif r < 0.75:
            kind = rng.choice(['H', 'H', 'h', 'S', 'S'])
            if rng.random() < 0.7: ops.append(f'set {recv} {kind} lerp {r6(rng.uniform(0.1, 0.9))}')
            else: ops.append(f'set {recv} {kind} cur 0')
        else:
            same_T, other_ph = rng.random() < 0.5, rng.random() < 0.4
            top = 0.15 if other_ph else 0.6
            fr = ','.join(r6(rng.uniform(0, top)) if rng.random() < 0.8 else '0.0' for _ in CHEMS)
            b = add_obj(ops, f'sub {recv} {fr} {"0.0" if same_T else r6(rng.uniform(-20, 20))} {"other" if other_ph else "same"} 1.0')
            ops.append(f'sep {recv} {b}')
    return Case(ops, {'history': True})


def gen_iter(rng):
    """one step of a solver map at random data; a quarter at a solution (X(T) = X), Cn from 1e-9 (trace streams) to 1e5"""
    kind = rng.choice(['HP', 'xHP', 'SP', 'xSP'])
    T = float(r6(rng.uniform(200, 600)))
    Cn = float(r6(10 ** rng.uniform(-9, 5)))
    XT = float(r6(rng.uniform(-1, 1) * Cn * 300))
    if rng.random() < 0.25: X = XT
    else:
        dT = rng.choice([-1, 1]) * 10 ** rng.uniform(-2, 1.5)         # the step asked for, in K (HP) or as ln-ratio * T (SP)
        X = XT + (Cn * dT if kind in ('HP', 'xHP') else Cn * dT / T)
    return f'iter {kind} {T!r} {X!r} {XT!r} {Cn!r}'


def add_obj(ops, line):
    ops.append(line)
    return nobj(ops) - 1


def gen_set(rng, ops, target):
    kind = rng.choice(['H', 'H', 'h', 'S', 'S', 'S', 'Hnet'])
    r = rng.random()
    if r < 0.55: ops.append(f'set {target} {kind} lerp {r6(rng.random())}')
    elif r < 0.80: ops.append(f'set {target} {kind} cur 0')
    elif r < 0.93: ops.append(f'set {target} {kind} cross {r6(rng.random())}')
    elif r < 0.97: ops.append(f'set {target} {kind} zero 0')
    else: ops.append(f'set {target} {kind} abs {r6(rng.choice([1e9, -1e9, 5.0, -3e7]))}')


def gen_case(rng):
    ops = []
    n = rng.choice([1, 1, 2, 2, 2, 3, 3, 4, 5])
    trace = rng.random() < 0.07               # every stream of the case carries a trace flow
    if rng.random() < 0.05:
        # one phase, one temperature, one pressure: the balance alone says the mixture stays at that temperature
        ph, T, P = rng.choice('lgL'), gen_T(rng), gen_P(rng)
        n = max(n, 2)
        ins = [add_obj(ops, f'S {ph} {T} {P} {gen_flows(rng, False, trace)}') for _ in range(n)]
        recv = add_obj(ops, f'S {rng.choice("lg")} 298.15 101325.0 {gen_flows(rng, True)}')
        ops.append(f'mix {recv} {",".join(map(str, ins))} abs 0.0 0')
        if rng.random() < 0.5: gen_set(rng, ops, recv)
        return Case(ops, {})
    ins = [gen_stream(rng, ops, trace=trace) for _ in range(n)]
    if all(all(float(x) == 0 for x in re.split('[,|]', o.split(' ')[-1])) for o in ops):
        ins.append(gen_stream(rng, ops, empty=False, trace=trace))       # "non-empty inlet sets"
    streams = list(ins)
    r = rng.random()
    if r < 0.15: ins.append(add_obj(ops, f'Q {r6(rng.uniform(-2e4, 2e4))}'))
    elif r < 0.22: ins.append(add_obj(ops, f'W {r6(rng.uniform(0, 2e4))}'))
    elif r < 0.27: ins.append(add_obj(ops, 'N'))
    rng.shuffle(ins)
    # receiver
    r = rng.random()
    if r < 0.55: recv = add_obj(ops, f'S {rng.choice("lg")} 298.15 101325.0 {gen_flows(rng, True)}')
    elif r < 0.65: recv = add_obj(ops, f'S {rng.choice("lg")} {gen_T(rng)} {gen_P(rng)} {gen_flows(rng, trace=trace)}')
    elif r < 0.70: recv = add_obj(ops, f'M 298.15 101325.0 {gen_flows(rng, True)}|{gen_flows(rng, True)}')
    elif r < 0.78: recv = gen_multi(rng, ops, rng.random() < 0.7)
    else: recv = rng.choice(streams)
    r = rng.random()
    if r < 0.35: mode, q = 'abs', '0.0'
    elif r < 0.88: mode, q = 'dT', r6(rng.uniform(-40, 40))
    elif r < 0.95: mode, q = 'abs', r6(rng.uniform(-3e4, 3e4))
    else: mode, q = 'huge', r6(rng.choice([1e9, -1e9, -3e7, 1e8]))
    cp = '1' if rng.random() < (0.10 if not any(ops[i].startswith('S L') for i in range(len(ops))) else 0.5) else '0'
    ops.append(f'mix {recv} {",".join(map(str, ins))} {mode} {q} {cp} {gen_flags(rng)}'.rstrip())
    # the same energy path through the other public entry points: Stream.sum, +, +=, -=
    only_streams = [i for i in streams if ops_kind(ops, i) in ('S', 'M', 'MP')]
    r = rng.random()
    if r < 0.10 and only_streams:
        add_obj(ops, (f'sum {",".join(map(str, rng.sample(only_streams, min(len(only_streams), rng.choice([1, 2, 3])))))} '
                      + gen_flags(rng)).rstrip())
    elif r < 0.16 and len(only_streams) >= 2:
        a, b = rng.sample(only_streams, 2); add_obj(ops, f'add {a} {b}')
    elif r < 0.22 and only_streams:
        ops.append(f'iadd {recv} {rng.choice(only_streams)}')
    elif r < 0.26 and only_streams:
        add_obj(ops, f'radd {rng.choice(only_streams)}')
    if rng.random() < 0.5: ops.append(gen_iter(rng))
    # assignments and separations afterwards
    cand = streams + [recv]
    for _ in range(rng.choice([0, 1, 1, 2, 3])):
        r = rng.random()
        if r < 0.7:
            gen_set(rng, ops, rng.choice(cand))
        else:
            a = rng.choice(cand)
            r2 = rng.random()
            if r2 < 0.76:
                # the four combinations of {same T exactly, other T} x {same phase, opposite phase} in equal shares:
                # a bleed at exactly the parent's temperature but in the other phase still carries the latent heat
                same_T, other_ph = rng.random() < 0.5, rng.random() < 0.5
                top = 0.15 if other_ph else 0.9
                fr = ','.join(r6(rng.uniform(0, top)) if rng.random() < 0.8 else '0.0' for _ in CHEMS)
                dT = '0.0' if same_T else r6(rng.uniform(-25, 25))
                Pf = r6(rng.choice([0.5, 2.0])) if rng.random() < 0.15 else '1.0'
                b = add_obj(ops, f'sub {a} {fr} {dT} {"other" if other_ph else "same"} {Pf}' + (' x' if rng.random() < 0.2 else ''))
                if rng.random() < 0.2:
                    ops.append(f'isub {a} {b}'); continue
                ops.append(f'sep {a} {b}')
            elif r2 < 0.86:
                ops.append(f'sep {a} {a}')
            elif r2 < 0.93:
                b = add_obj(ops, f'S {rng.choice("lg")} {gen_T(rng)} {gen_P(rng)} {gen_flows(rng, True)}')
                ops.append(f'sep {a} {b}')            # an empty stream: nothing may change
            else:
                b = add_obj(ops, 'N'); ops.append(f'sep {a} {b}')
    return Case(ops, {})


def generate(rng, tier, index, nworkers):
    n = max(1, budget(tier)['cases'] // nworkers)
    for _ in range(n):
        r = rng.random()
        yield gen_pr_history(rng) if r < 0.06 else gen_alias_history(rng) if r < 0.19 else gen_history(rng) if r < 0.49 else gen_case(rng)


def corpus():
    E = '0,0,0,0,0'
    return [
        # DESIGN.md §8 #5: exactly one non-empty inlet, Q (and a heat object) must still arrive
        Case(['S l 320.0 101325.0 10.0,3.0,0,0,0', f'S l 298.15 101325.0 {E}', f'S l 298.15 101325.0 {E}',
              'mix 2 0,1 abs 5000.0 0']),
        Case(['S g 400.0 50000.0 0,3.0,2.0,0,0', 'Q 1234.0', f'S l 298.15 101325.0 {E}', 'mix 2 0,1 abs 0.0 0']),
        # DESIGN.md §8 #6: the S setter's fallback branch (a liquid target no liquid solve reaches)
        Case(['S l 273.4192214188862 35855.3384716607 0.0,18.105336140199565,0.32668624376326916,0.0,0.0',
              'set 0 S abs 3004.9954430508355']),
        Case(['S g 300.0 101325.0 5.0,0,0,0,0', 'set 0 S cross 0.3']),
        # the receiver is one of the inlets
        Case(['S l 300.0 101325.0 10.0,0,0,0,0', 'S l 360.0 101325.0 10.0,0,0,0,0', 'mix 0 0,1 abs 0.0 0']),
        # two-phase inlet, multi-phase receiver, conserve_phases, pressure minimum
        Case(['S l 300.0 202650.0 10.0,1.0,0,0,0', 'M 350.0 101325.0 0,2.0,0,0,0|5.0,0,0,0,0', 'S g 420.0 50000.0 0,0,3.0,0,0',
              f'M 298.15 101325.0 {E}|{E}', 'mix 3 0,1,2 dT 10.0 0', f'S l 298.15 101325.0 {E}', 'mix 4 0,1,2 dT -5.0 1',
              'set 3 H lerp 0.4', 'set 3 S cur 0', 'set 4 h lerp 0.7']),
        # the bare-except fallback: far too much / too little heat
        Case(['S l 300.0 101325.0 10.0,0,0,0,0', 'S g 360.0 101325.0 0,10.0,0,0,0', f'S l 298.15 101325.0 {E}',
              'mix 2 0,1 huge -1000000000.0 0', f'S l 298.15 101325.0 {E}', 'Q 5.0', 'mix 3 0,1,4 huge -1000000000.0 0']),
        # conserve_phases (and the except-fallback) with a heat object / None among the inlets
        Case(['S g 351.19 101325.0 4.262,2.444,0,0,31.9', 'S g 324.986 128908.0 40.89,0,36.82,0,15.91', 'Q -15118.4',
              f'S l 298.15 101325.0 {E}', 'mix 3 0,1,2 dT 15.0 1', 'N', f'S g 298.15 101325.0 {E}', 'mix 5 0,4,1 abs 0.0 1']),
        # no non-empty inlet at all: the receiver is emptied, nothing is solved
        Case([f'S l 320.0 101325.0 {E}', 'Q 10.0', 'S g 400.0 50000.0 1.0,0,0,0,0', 'mix 2 0,1 abs 7.0 0', 'mix 2 - abs 0.0 0']),
        # separate_out of an empty stream (also the empty stream itself) is a no-op: T stays bit for bit, no solve
        Case(['S l 330.0 101325.0 10.0,4.0,0,1.0,0', f'S g 400.0 50000.0 {E}', 'sep 0 1', f'S l 298.15 101325.0 {E}', 'sep 2 2',
              'sep 0 2']),
        # separate_out of a bleed at exactly the parent's temperature but in the other phase (latent heat leaves), and the
        # converse combinations (same T same phase, other T other phase)
        Case(['S l 365.0 101325.0 10.0,2.0,0,0,0', 'sub 0 0.03,0.1,0,0,0 0.0 other 1.0', 'sep 0 1',
              'S g 400.0 50000.0 10.0,2.0,0,0,0', 'sub 2 0.03,0.05,0,0,0 0.0 other 1.0', 'sep 2 3',
              'S l 350.0 101325.0 10.0,2.0,0,0,0', 'sub 4 0.1,0.25,0,0,0 0.0 same 1.0', 'sep 4 5',
              'sub 4 0.03,0.1,0,0,0 15.0 other 1.0', 'sep 4 6']),
        # separate_out: a share, the stream itself, None; empty streams and the zero shortcut
        Case(['S l 330.0 101325.0 10.0,4.0,0,1.0,0', 'sub 0 0.5,0.25,0,0.9,0 12.0', 'sep 0 1', 'sep 0 0', 'N', 'sep 0 2',
              'set 0 H zero 0', 'set 0 H abs 5.0', f'S g 298.15 101325.0 {E}', 'set 3 S abs 5.0']),
    ]
