"""
C09 — sparse flow arrays behave exactly like the dense NumPy arrays they represent.

Adapter for thermosteam/base/sparse.py (SparseVector, SparseLogicalVector, SparseArray):
every operation is applied to the real sparse objects and, independently, to NumPy on their
dense images.  Each answer line has three fields

    <result of the sparse code> | np<what NumPy computes> | chg=<objects whose state changed>

and the Lean driver prints the same three fields from the sparse model
(lean/ThermoVerif/Model/Sparse*.lean) and from the Lean NumPy reference semantics
(lean/ThermoVerif/Model/Dense.lean).  The property oracle looks at the real objects only.
"""
from __future__ import annotations
import itertools, math, random, warnings
from fractions import Fraction
from harness.core import Case, ImplResult, frac

PID = 'C09'
LEAN_MODULES = ['ThermoVerif.Props.C09', 'ThermoVerif.Props.C09Store', 'ThermoVerif.Props.C09Array',
                'ThermoVerif.Props.C09Array2', 'ThermoVerif.Props.C09Array3']
RULE = ('operation histories on shared SparseVector / SparseLogicalVector / SparseArray objects; values are dyadic '
        'rationals (exact in binary64), divisors ±2^j; the cases of a run depend on (tier, seed) only - never on the worker '
        'index, the number of workers or the machine: one grid list built from Random(seed) and dealt out round-robin (the '
        'evidence lists executed / expected / missing cells): operand-kind × operator × shape-relation (vector, logical '
        'vector and array targets, binary / in-place / reflected), indexing forms × value shapes, reductions × axis × keepdims, '
        'read-only targets, and the all-zero-operand grid (target kind × operand kind × operator × shape relation × which side '
        'holds no entry, emptied by cancellation / `*= 0` / `x -= x` / clear() / `x[:] = 0` in rotation); then 2400 random '
        'histories of ≤30 operations generated adaptively on the real objects (history j from Random(seed, j)); at every '
        '`toarray` the public conversion / query / constructor methods that are not protocol operations (to_flat_array, '
        'from_flat_array, tolist, astype, nonzero_*, positive_/negative_*, from_dict / from_set / from_rows / from_shape, '
        'sparse(copy=), sum_of, copy_like, cross-kind constructors, list-left operators, argmax … dot) are compared with NumPy on the dense image (tags probe:*); a Python-only stream (about 2300 '
        'cases, tag stream:py, no Lean counterpart) judges binary64 values of extreme and inexact magnitude bit for bit '
        'against NumPy (underflow, overflow, rounding; comparisons one unit in the last place apart), negative positions, '
        'every slice shape (start / stop below -size … beyond size × step ±1, ±2), boolean masks next to a column index, empty and '
        'repeated selections; the thorough tier is exhaustive for pairs of '
        'vectors of size ≤3 over {0, a, −a, 1/2} (+, −, ×, comparisons; ÷ over {0, ±2, 1/2}) and for pairs of logical '
        'vectors of size ≤3 (every operator), binary and in place, sparse and dense operand; a case is non-trivial '
        'when at least one operation returned or left a non-zero array; distinct = distinct op sequences')
ASSUMPTIONS = [
    'values are exact rationals in the model; the generators of the model stream keep every stored value n/2^e with '
    '|n|<2^24, e≤24 so that each binary64 operation of the implementation is exact; float underflow / overflow / rounding is '
    'judged by the Python-only float stream against NumPy bit for bit (oracle only: the Lean model has no floats)',
    'dtype is not compared, only values and shapes (True == 1.0), as the existing tests do',
    'the order of dict/set entries is not compared (sorted before comparing)',
    'exception classes are compared as rejected / readonly / zerodiv; division by zero follows the code '
    '(ZeroDivisionError, 0/0 = 0), the documented deviation from NumPy inf/nan required by tests/test_sparse.py',
    'leading axes of length 1 of an operand (`[[2]]`, `[[a, b, c]]`, shape (1, n); for in-place operators also a one-row '
    'SparseArray) are dropped before NumPy is consulted, as `reduce_ndim` does by design (tests compare `sv + [[2]]` with `arr + [[2]]`)',
    'operations NumPy refuses for dtype reasons (boolean subtract / negative, float into a boolean array in place) have no '
    'reference: only the invariant and the frame are judged there',
    'negative positions, slices with negative / out-of-range bounds or a negative step, boolean masks next to a column index, '
    'empty row selections and a row index twice in one fancy index are not in the model (natural-number positions, clipped '
    'forward slices, non-empty row lists; the model stream generates none of them): they are generated in the Python-only '
    'stream and judged by the oracle alone (slices: every start / stop / step combination, cells slicegrid/*).  Slices and '
    'masks agree with NumPy since 8812333; the code still FAILS the property for negative POSITIONS of vectors and array '
    'columns, empty row selections and repeated rows (listed findings negative-index-not-wrapped, empty-selection-loses-shape, '
    'duplicate-row-selection-aliased); zero-size operands, `x[...]` and the target (or an array sharing several of its rows) as '
    'the value of its own fancy assignment / in-place operand are not generated at all',
    'after a ZeroDivisionError inside an in-place operator the target is half-updated by design of the loop; the case ends '
    'there (`chg=?`) and the partial state is not judged',
    'after an operation of one of the known "size is not strict" classes the object is not used any more (both sides answer skip=nonwf)',
    'reflected operators are exercised with Python numbers and lists on the left (an ndarray on the left makes NumPy '
    'iterate the sparse object and never reaches sparse.py operators)',
]
TRUSTED = ['Lean 4.33 kernel', 'correspondence harness harness/props/c09.py + Driver/C09.lean',
           'Model/Dense.lean as the definition of NumPy semantics (tied to real NumPy by the same run)',
           'generator reach (see histogram)']
EXHAUSTIVE = {'quick': False, 'thorough': False}   # the thorough tier enumerates PAIRS of small vectors per operator, not all histories

np = None
SV = SLV = SA = sparse = None


def setup():
    global np, SV, SLV, SA, sparse
    warnings.simplefilter('ignore')
    import numpy as np_
    np = np_
    import thermosteam  # noqa: F401  (sets numpy error state the way the library runs)
    from thermosteam.base import sparse as sp, SparseVector, SparseLogicalVector, SparseArray
    SV, SLV, SA, sparse = SparseVector, SparseLogicalVector, SparseArray, sp


def budget(tier):
    return {'quick': dict(seconds=60, cases=2400, shrink_s=15, search_s=5),
            'thorough': dict(seconds=420, cases=120000, shrink_s=40, search_s=20)}[tier]


# --------------------------------------------------------------------------
# protocol tokens <-> Python values
# --------------------------------------------------------------------------

def fr(x) -> str:
    x = float(x)
    if not math.isfinite(x): return 'nan' if x != x else ('inf' if x > 0 else '-inf')
    s = frac(x)
    # values of the float stream (never sent to the Lean driver): the shortest decimal that reads back as the same binary64
    return s if len(s) <= 40 else repr(x)


def lit_token(kind, ty, shape, data):
    """kind 'P' (Python number / nested list) or 'N' (NumPy scalar / ndarray); ty f|i|b"""
    return f'{kind}{ty}{"x".join(map(str, shape))}:{",".join(fr(x) for x in data)}'


def parse_lit(tok):
    head, data = tok.split(':')
    kind, ty, shape = head[0], head[1], head[2:]
    shape = [int(x) for x in shape.split('x')] if shape else []
    vals = [Fraction(x) for x in data.split(',')] if data else []
    conv = {'f': float, 'i': lambda v: int(v), 'b': lambda v: bool(v)}[ty]
    vals = [conv(v) for v in vals]
    def nest(vals, shape):
        if not shape: return vals[0]
        if len(shape) == 1: return list(vals)
        step = 1
        for s in shape[1:]: step *= s
        return [nest(vals[i * step:(i + 1) * step], shape[1:]) for i in range(shape[0])]
    v = nest(vals, shape)
    if kind == 'N':
        dt = {'f': float, 'i': int, 'b': bool}[ty]
        if not shape:
            return {'f': np.float64, 'i': np.int64, 'b': np.bool_}[ty](v)
        return np.array(v, dtype=dt).reshape(shape)
    return v


def parse_idx1(tok):
    tup = tok.startswith('t')
    if tup: tok = tok[1:]
    k, body = tok[0], tok[1:]
    if k == 'i': v = int(body)
    elif k == 's':
        a, b, c = body.split(':')
        v = slice(*[None if x == '_' else int(x) for x in (a, b, c)])
    elif k in 'fF':
        v = [int(x) for x in body.split(',')] if body else []
        if k == 'F': v = np.array(v, dtype=int)
    elif k in 'mM':
        v = [x != '0' for x in body.split(',')] if body else []
        if k == 'M': v = np.array(v, dtype=bool)
    else:
        raise ValueError(tok)
    return (v,) if tup else v


def parse_idx(tok):
    if '|' in tok:
        a, b = tok.split('|')
        return (parse_idx1(a), parse_idx1(b))
    return parse_idx1(tok)


def fmt_num(x):
    x = float(x)
    if not math.isfinite(x): return None
    return frac(x)


def fmt_dense(v):
    """NumPy value / Python number -> x=.. | v=[..] | m=[[..]] ; None if not finite"""
    a = np.asarray(v)
    if a.dtype == object: return 'obj'
    a = a.astype(float)
    while a.ndim > 2 and a.shape[0] == 1: a = a[0]
    if not np.isfinite(a).all(): return None
    if a.ndim == 0: return 'x=' + frac(float(a))
    if a.ndim == 1: return 'v=[' + ','.join(frac(float(x)) for x in a) + ']'
    if a.ndim == 2: return 'm=[' + ','.join('[' + ','.join(frac(float(x)) for x in r) + ']' for r in a) + ']'
    return f'nd{a.ndim}'


# --------------------------------------------------------------------------
# the real objects of one case
# --------------------------------------------------------------------------

class Rejected(Exception):
    """the adapter itself refuses the line (malformed)"""


def is_sparse(o):
    return o.__class__ in (SV, SLV, SA)


class World:
    def __init__(self, float_mode=False):
        self.objs = []
        self.ids = {}
        self.float_mode = float_mode      # the float stream: inf / nan are compared with NumPy's, not an invariant failure
        self.tags = set()

    def reg(self, o):
        if id(o) in self.ids: return self.ids[id(o)]
        if o.__class__ is SA:
            for r in o.rows: self.reg(r)
        self.ids[id(o)] = len(self.objs)
        self.objs.append(o)
        return len(self.objs) - 1

    def ref(self, tok):
        return self.objs[int(tok[1:])]

    def operand(self, tok):
        return self.ref(tok) if tok.startswith('@') else parse_lit(tok)

    # ---- canonical state -------------------------------------------------
    def show(self, o):
        if o.__class__ is SV:
            items = sorted((int(k), v) for k, v in o.dct.items())
            return f'sv/{o.size}/{";".join(f"{k}={fr(v)}" for k, v in items)}/{1 if o.read_only else 0}'
        if o.__class__ is SLV:
            return f'slv/{o.size}/{";".join(str(k) for k in sorted(int(k) for k in o.set))}'
        if o.__class__ is SA:
            return 'sa/' + ','.join(f'@{self.ids.get(id(r), "?")}' for r in o.rows)
        return '?'

    def snapshot(self):
        return [self.show(o) for o in self.objs]

    # ---- well-formedness of the real representation -------------------------
    def wf_failure(self, o):
        if o.__class__ is SV:
            for k, v in o.dct.items():
                if isinstance(k, (bool, np.bool_)) or not isinstance(k, (int, np.integer)): return 'key-not-integer'
                if v == 0: return 'stored-zero'
                if not (v == v and abs(v) != float('inf')) and not self.float_mode: return 'stored-nonfinite'
                if not (0 <= k < o.size): return 'key-out-of-range'
        elif o.__class__ is SLV:
            for k in o.set:
                if isinstance(k, (bool, np.bool_)) or not isinstance(k, (int, np.integer)): return 'key-not-integer'
                if not (0 <= k < o.size): return 'key-out-of-range'
        elif o.__class__ is SA:
            for r in o.rows:
                f = self.wf_failure(r)
                if f: return f
            if len({r.size for r in o.rows}) > 1: return 'ragged-rows'
        return None

    def dense(self, o):
        """dense image through the public conversion; None if the representation is not well formed"""
        if not is_sparse(o): return o
        if self.wf_failure(o): return None
        return o.to_array()

    def values_small(self):
        for o in self.objs:
            if o.__class__ is SV:
                for v in o.dct.values():
                    f = Fraction(float(v))
                    if abs(f.numerator) >= (1 << 24) or f.denominator > (1 << 24): return False
        return True


ERR_REJECTED = (ValueError, TypeError, IndexError)


def err_class(e):
    if isinstance(e, (ZeroDivisionError, FloatingPointError)): return 'zerodiv'
    if isinstance(e, ValueError) and 'read-only' in str(e): return 'readonly'
    if isinstance(e, ERR_REJECTED): return 'rejected'
    return 'crash:' + type(e).__name__


BINOPS = {
    'add': lambda a, b: a + b, 'sub': lambda a, b: a - b, 'mul': lambda a, b: a * b,
    'truediv': lambda a, b: a / b, 'eq': lambda a, b: a == b, 'ne': lambda a, b: a != b,
    'gt': lambda a, b: a > b, 'lt': lambda a, b: a < b, 'ge': lambda a, b: a >= b, 'le': lambda a, b: a <= b,
    'and': lambda a, b: a & b, 'or': lambda a, b: a | b, 'xor': lambda a, b: a ^ b,
}


def ibin_apply(op, a, b):
    if op == 'add': a += b
    elif op == 'sub': a -= b
    elif op == 'mul': a *= b
    elif op == 'truediv': a /= b
    elif op == 'and': a &= b
    elif op == 'or': a |= b
    elif op == 'xor': a ^= b
    else: raise Rejected(op)
    return a


ARITH = ('add', 'sub', 'mul', 'truediv')
CMP = ('eq', 'ne', 'gt', 'lt', 'ge', 'le')
LOGIC = ('and', 'or', 'xor')
MUTATORS = ('ibin', 'set', 'clear', 'remneg', 'mixfrom', 'copylike', 'setflags', 'setro')


class OpRun:
    """result of one op on the real objects"""
    __slots__ = ('res', 'np', 'err', 'value', 'npval', 'nperr', 'target', 'has_np')


def run_numpy(f, dtype_rules=False):
    """-> (value, None) or (None, 'err'|'nonfinite')"""
    try:
        with np.errstate(all='ignore'):
            v = f()
    except TypeError:
        return None, ('typeerr' if dtype_rules else 'err')   # dtype rules (boolean subtract / negative, float into a boolean array): no reference
    except Exception:
        return None, 'err'
    return v, None


def np_index(idx):
    """the index as NumPy takes it (lists stay lists, tuples for 2-d)"""
    return idx


def strip1(x, inplace=False):
    """the operand as the NumPy reference sees it: leading axes of length 1 dropped, as `reduce_ndim`
    does by design (tests compare `sv + [[2]]` with `arr + [[2]]`); for in-place operators also a
    one-row SparseArray operand (`sparse_vector_imath` takes `other.rows[0]`)"""
    if x is None: return None
    a = np.asarray(x)
    if a.dtype == object: return x
    while a.ndim and a.shape[0] == 1: a = a[0]
    return a


def refs_of(t):
    return [int(x[1:]) for tok in t[1:] for x in tok.split(',') if x.startswith('@') and x[1:].isdigit()]


def apply(W: World, line: str):
    """Apply one protocol line to the real objects.  Returns (answer, failures, meta)"""
    t = line.split(' ')
    k = t[0]
    # an object whose representation is broken (only possible after one of the known deviations) is
    # not used any more: neither side executes the line
    try:
        if any(W.wf_failure(W.objs[i]) for i in refs_of(t)): return 'skip=nonwf', [], False
    except IndexError:
        raise Rejected('unknown object in ' + line)
    before = W.snapshot()
    nobj = len(W.objs)
    value = None
    err = None
    np_f = None          # thunk computing the NumPy counterpart on dense images taken *before* the op
    target = None        # id of the object an in-place op may change
    info = {}
    D = W.dense

    def dn(o):
        d = D(o)
        if d is None: raise Undefined()
        return np.array(d, copy=True) if isinstance(d, np.ndarray) else d

    try:
        if k == 'new':
            v = parse_lit(t[1]); f = lambda: sparse(v); np_f = lambda: np.asarray(parse_lit(t[1]))
        elif k == 'newsv':
            v = parse_lit(t[1]); size = None if t[2] == '_' else int(t[2])
            f = lambda: SV(v, size)
            if size is None: np_f = lambda: np.asarray(parse_lit(t[1]), dtype=float)
        elif k == 'newdict':
            items = {} if t[1] == '-' else {int(a): float(Fraction(b)) for a, b in (kv.split(':') for kv in t[1].split(','))}
            f = lambda: SV(items, int(t[2]))
        elif k == 'newsize':
            f = lambda: SV.from_size(int(t[1]))
        elif k == 'newsa':
            rows = [W.ref(x) for x in t[1].split(',')]
            f = lambda: SA(rows)
            ds = [D(r) for r in rows]
            np_f = (lambda: np.array(ds)) if all(d is not None for d in ds) else 'undef'
        elif k == 'copyctor':
            a = W.ref(t[1]); f = lambda: (SV(a) if a.__class__ is SV else SLV(a))
        elif k == 'bin':
            a, b = W.ref(t[2]), W.operand(t[3]); fn = BINOPS[t[1]]
            f = lambda: fn(a, b)
            da, db = D(a), (D(b) if is_sparse(b) else strip1(b))
            np_f = (lambda: fn(da, db)) if da is not None and db is not None else 'undef'
            info = dict(op=t[1], a=a, b=b, da=da, db=db, xy=(da, db))
        elif k == 'rbin':
            b, a = parse_lit(t[2]), W.ref(t[3]); fn = BINOPS[t[1]]
            f = lambda: fn(b, a)
            da = D(a)
            np_f = (lambda: fn(np.asarray(b), da)) if da is not None else 'undef'
            info = dict(op=t[1], a=a, b=b, xy=(np.asarray(b), da))
        elif k == 'ibin':
            a, b = W.ref(t[2]), W.operand(t[3]); target = W.ids[id(a)]
            f = lambda: ibin_apply(t[1], a, b)
            da, db = D(a), strip1(D(b))
            if da is None or db is None: np_f = 'undef'
            else:
                da0 = np.array(da, copy=True)
                da = np.array(da, copy=True)
                np_f = lambda: ibin_apply(t[1], da, db)
            info = dict(op=t[1], a=a, b=b)
            if da is not None and db is not None: info.update(da=da0, db=db, xy=(da0, db))
        elif k == 'neg':
            a = W.ref(t[1]); f = lambda: -a; da = D(a); np_f = (lambda: -da) if da is not None else 'undef'
        elif k == 'abs':
            a = W.ref(t[1]); f = lambda: abs(a); da = D(a); np_f = (lambda: abs(da)) if da is not None else 'undef'
        elif k == 'inv':
            a = W.ref(t[1]); f = lambda: ~a; da = D(a); np_f = (lambda: ~da) if da is not None else 'undef'
        elif k == 'get':
            a = W.ref(t[1]); idx = parse_idx(t[2]); f = lambda: a[idx]
            da = D(a); np_f = (lambda: da[idx]) if da is not None else 'undef'
            info = dict(a=a, idx=idx)
        elif k == 'set':
            a = W.ref(t[1]); idx = parse_idx(t[2]); v = W.operand(t[3]); target = W.ids[id(a)]
            def f():
                a[idx] = v
            da, dv = D(a), strip1(D(v))
            if da is None or dv is None: np_f = 'undef'
            else:
                da = np.array(da, copy=True)
                def np_f():
                    da[idx] = dv
                    return da
            info = dict(a=a, idx=idx, v=v, dv=dv)
        elif k == 'red':
            a = W.ref(t[2]); axis = None if t[3] == '_' else int(t[3]); kd = t[4] == '1'
            f = lambda: getattr(a, t[1])(axis=axis, keepdims=kd)
            da = D(a); np_f = (lambda: getattr(da, t[1])(axis=axis, keepdims=kd)) if da is not None else 'undef'
            info = dict(a=a, red=t[1])
        elif k == 'copy':
            a = W.ref(t[1]); f = lambda: a.copy(); da = D(a); np_f = (lambda: da.copy()) if da is not None else 'undef'
        elif k == 'toarray':
            a = W.ref(t[1]); f = lambda: a.to_array(); da = D(a); np_f = (lambda: da) if da is not None else 'undef'
        elif k == 'clear':
            a = W.ref(t[1]); target = W.ids[id(a)]; f = lambda: a.clear()
            da = D(a); np_f = (lambda: np.zeros_like(da)) if da is not None else 'undef'
        elif k == 'remneg':
            a = W.ref(t[1]); target = W.ids[id(a)]; f = lambda: a.remove_negatives()
            da = D(a); np_f = (lambda: np.where(da < 0, 0, da)) if da is not None else 'undef'
        elif k == 'hasneg':
            a = W.ref(t[1]); f = lambda: bool(a.has_negatives())
        elif k == 'nzkeys':
            a = W.ref(t[1]); f = lambda: ('keys', sorted(int(i) for i in a.nonzero_keys()))
        elif k == 'nzitems':
            a = W.ref(t[1]); f = lambda: ('items', sorted((int(i), float(j)) for i, j in a.nonzero_items()))
        elif k == 'negkeys':
            a = W.ref(t[1]); f = lambda: ('keys', sorted(int(i) for i in a.negative_keys()))
        elif k == 'poskeys':
            a = W.ref(t[1]); f = lambda: ('keys', sorted(int(i) for i in a.positive_index()[0]))
        elif k == 'setflags':
            a = W.ref(t[1]); target = W.ids[id(a)]; f = lambda: a.setflags(0)
        elif k == 'setro':
            a = W.ref(t[1]); target = W.ids[id(a)]
            def f(): a.read_only = (t[2] == '1')
        elif k == 'mixfrom':
            a = W.ref(t[1]); others = [] if t[2] == '-' else [W.ref(x) for x in t[2].split(',')]; target = W.ids[id(a)]
            f = lambda: a.mix_from(others)
            ds = [D(o) for o in others]
            if others and all(d is not None for d in ds):
                np_f = lambda: sum(d.astype(float) for d in ds)
            elif others: np_f = 'undef'
        elif k == 'sumof':
            a = W.ref(t[1]); idx = [int(x) for x in t[2].split(',')] if t[2] else []
            f = lambda: a.sum_of(idx)
        elif k == 'copylike':
            a, b = W.ref(t[1]), W.ref(t[2]); target = W.ids[id(a)]; f = lambda: a.copy_like(b)
            db = D(b); np_f = (lambda: db) if db is not None else 'undef'
        elif k == 'speq':
            a, b = W.ref(t[1]), W.operand(t[2]); f = lambda: bool(a.sparse_equal(b))
        else:
            raise Rejected('unknown op ' + line)
    except (IndexError, KeyError, AttributeError) as e:
        raise Rejected(f'malformed line {line!r}: {e}')

    # ---- the real code ----------------------------------------------------
    try:
        value = f()
    except Rejected:
        raise
    except Exception as e:
        err = err_class(e)
        info['exc'] = f'{type(e).__name__}: {e}'
    # ---- NumPy on the dense images -------------------------------------------
    npval, nperr = None, None
    if np_f is None: np_s = 'np=-'
    elif np_f == 'undef': np_s = 'np=err'; nperr = 'undef'
    else:
        npval, nperr = run_numpy(np_f, k in ('bin', 'ibin', 'rbin', 'neg', 'inv', 'abs'))
        if nperr: np_s = 'np=' + nperr
        else:
            s = fmt_dense(npval)
            if s is None: np_s, nperr = 'np=nonfinite', 'nonfinite'
            else: np_s = 'np:' + s

    # ---- result ---------------------------------------------------------------
    fresh = []
    if err:
        res = 'err=' + err
    elif value is None:
        res = 'none'
    elif is_sparse(value):
        i = W.reg(value)
        fresh = list(range(nobj, len(W.objs)))
        res = f'@{i}:{W.show(value)}'
        if value.__class__ is SA and i >= nobj:
            res += '{' + ','.join(f'@{W.ids[id(r)]}:{W.show(r)}' for r in value.rows if W.ids[id(r)] >= nobj) + '}'
    elif isinstance(value, tuple) and value and value[0] == 'keys':
        res = 'k=[' + ','.join(map(str, value[1])) + ']'
    elif isinstance(value, tuple) and value and value[0] == 'items':
        res = 'it=[' + ','.join(f'{i}:{fr(j)}' for i, j in value[1]) + ']'
    else:
        s = fmt_dense(value)
        res = s if s is not None else 'nonfinite'
    after = W.snapshot()
    changed = [i for i in range(nobj) if before[i] != after[i]]
    chg = 'chg=' + (','.join(f'@{i}:{after[i]}' for i in changed) if changed else '-')
    if err == 'zerodiv' and k == 'ibin': chg = 'chg=?'      # the loop stops half-way; nothing after it is compared
    answer = f'{res} | {np_s} | {chg}'
    if k == 'red' and t[1] == 'mean': answer += ' | ~'

    failures = oracle(W, line, t, err, value, npval, nperr, np_f is not None, target, changed, fresh, info, before)
    if k == 'toarray' and err is None and W.wf_failure(W.ref(t[1])) is None:
        failures += probe_methods(W, W.ref(t[1]), line)
    dead = (err == 'zerodiv' and k == 'ibin') or (err or '').startswith('crash:')
    return answer, failures, dead


class Undefined(Exception):
    pass


# --------------------------------------------------------------------------
# the property, on the real objects
# --------------------------------------------------------------------------

def same_dense(a, b, loose=False):
    """value and shape equality of two dense values (dtype ignored); `loose`: modulo leading axes of
    length 1 (an operand was written with such axes: `reduce_ndim` drops them by design, the existing
    tests compare `sv + [[2]]` with `arr + [[2]]` through `==`)"""
    a, b = np.asarray(a), np.asarray(b)
    if a.dtype == object or b.dtype == object: return False
    if loose:
        while a.ndim and a.shape[0] == 1: a = a[0]
        while b.ndim and b.shape[0] == 1: b = b[0]
    if a.shape != b.shape: return False
    return bool((a.astype(float) == b.astype(float)).all())


def lead1(x):
    """is the operand written with leading axes of length 1 (`[[2]]`, `[[a, b, c]]`, shape (1, n))?"""
    if is_sparse(x): return x.__class__ is SA and len(x.rows) == 1
    try: sh = np.shape(x)
    except Exception: return False
    return len(sh) >= 1 and sh[0] == 1


def is_column(x):
    if is_sparse(x): return False
    try: sh = np.shape(x)
    except Exception: return False
    return len(sh) == 2 and sh[1] == 1 and sh[0] > 1


def nrows_of(x):
    if x.__class__ is SA: return len(x.rows)
    if is_sparse(x): return None
    sh = np.shape(strip1(x)) if not np.isscalar(x) else ()
    return sh[0] if len(sh) == 2 else None


def rows_mismatch(a, b, inplace=False):
    """an array against a 2-d operand with another number of rows (the code zips the rows)"""
    na, nb = nrows_of(a), nrows_of(b)
    if na is None or nb is None: return False
    if b.__class__ is SA: return na != nb and nb != 1 and (inplace or na != 1)
    return na != nb


def kind_of(x):
    if x.__class__ is SV: return 'SV'
    if x.__class__ is SLV: return 'SLV'
    if x.__class__ is SA: return 'SA'
    if isinstance(x, np.ndarray): return f'nd{x.ndim}'
    if isinstance(x, list): return 'list'
    return 'num'


def out_of_range_index(idx, n):
    """does a 1-d index touch a position outside [0, n)?"""
    if isinstance(idx, tuple) and len(idx) == 1: idx = idx[0]
    if isinstance(idx, slice):
        return (idx.start or 0) > n or (idx.stop is not None and idx.stop > n)
    if isinstance(idx, (int, np.integer)): return not (0 <= idx < n)
    a = np.asarray(idx)
    if a.dtype == bool: return a.shape != (n,)
    return bool(((a < 0) | (a >= n)).any()) if a.size else False


def shape_of_obj(o):
    return (len(o.rows), o.vector_size) if o.__class__ is SA else (o.size,)


def selection_shape(idx, shape):
    """shape of what NumPy selects with `idx` in an array of that shape; None if NumPy rejects the index"""
    try: return np.empty(shape)[idx].shape
    except Exception: return None


def has_negative(idx):
    if isinstance(idx, tuple): return any(has_negative(i) for i in idx)
    if isinstance(idx, slice): return any(x is not None and x < 0 for x in (idx.start, idx.stop))
    if isinstance(idx, (int, np.integer)): return idx < 0
    a = np.asarray(idx)
    return a.dtype != bool and a.size > 0 and bool((a < 0).any())


def is_bool_mask(i):
    if isinstance(i, np.ndarray): return i.dtype == bool and i.ndim == 1
    return isinstance(i, list) and len(i) > 0 and all(isinstance(x, (bool, np.bool_)) for x in i)


def unwrapped_negative(idx, obj):
    """a negative POSITION the kernels do not wrap (the listed class): a negative integer or a negative entry of an index
    list of a vector, or of the column component of an array index.  Slices are NOT part of the class: since 8812333
    `default_range` is `slice.indices`, so negative bounds wrap and out-of-range bounds clip exactly as in NumPy, and any
    slice failure keeps its own signature.  Negative integer / list ROW positions of an array go through Python list
    indexing and wrap correctly: not part of the class either."""
    def neg_pos(i): return not isinstance(i, slice) and has_negative(i)
    if isinstance(idx, tuple) and len(idx) == 1 and obj.__class__ is not SA: idx = idx[0]
    if obj.__class__ is not SA: return neg_pos(idx)
    if isinstance(idx, tuple) and len(idx) == 2: return neg_pos(idx[1])
    return False


def column_part(idx):
    return idx[1] if isinstance(idx, tuple) and len(idx) == 2 else None


def same_as_documented(img, e):
    """equal to the recomputed documented result; where that is 0/0 (nan) the code gives 0 by convention (pinned by tests)"""
    if e is None or img is None: return False
    a, b = np.asarray(img), np.asarray(e)
    if a.dtype == object or b.dtype == object or a.shape != b.shape: return False
    a, b = a.astype(float), b.astype(float)
    return bool((((a == b) & np.isfinite(b)) | (np.isnan(b) & (a == 0))).all())


def truncated_rows_expected(k, op, da, db):
    """what the documented row-wise `zip` gives for operands with different numbers of rows: the operator on the common
    rows; for in-place operators the other rows of the target are unchanged.  None if that cannot be computed."""
    try:
        da, db = np.asarray(da), np.asarray(db)
        if da.ndim != 2 or db.ndim != 2: return None
        n = min(da.shape[0], db.shape[0])
        with np.errstate(all='ignore'):
            if k == 'bin': return BINOPS[op](da[:n], db[:n])
            out = np.array(da, copy=True)
            top = np.array(da[:n], copy=True)
            out[:n] = ibin_apply(op, top, db[:n])
            return out
    except Exception:
        return None


def underflow_only(W, obj, info):
    """every stored zero of `obj` sits where the exact result is non-zero but rounds to zero in binary64
    (|x| ≤ 2^-1075): the documented float-level deviation and nothing else"""
    if 'xy' not in info or info.get('op') not in ('add', 'sub', 'mul', 'truediv'): return False
    x, y = info['xy']
    if x is None or y is None: return False
    try:
        X, Y = np.broadcast_arrays(np.asarray(x, dtype=float), np.asarray(y, dtype=float))
    except Exception:
        return False
    if not is_sparse(obj): return False
    rows = obj.rows if obj.__class__ is SA else [obj]
    if X.ndim == 1: X, Y = X[None, :], Y[None, :]
    if X.ndim != 2 or X.shape[0] != len(rows): return False
    tiny = Fraction(1, 2 ** 1075)
    f = {'add': lambda a, b: a + b, 'sub': lambda a, b: a - b, 'mul': lambda a, b: a * b,
         'truediv': lambda a, b: a / b if b else None}[info['op']]
    found = False
    for r, xr, yr in zip(rows, X, Y):
        if r.__class__ is not SV: continue
        for j, v in r.dct.items():
            if v != 0: continue
            if not (0 <= j < len(xr)) or not (math.isfinite(xr[j]) and math.isfinite(yr[j])): return False
            e = f(Fraction(float(xr[j])), Fraction(float(yr[j])))
            if e is None or e == 0 or abs(e) > tiny: return False
            found = True
    return found


def oracle(W, line, t, err, value, npval, nperr, has_np, target, changed, fresh, info, before):
    k = t[0]
    fails = []
    def fail(sig, what):
        fails.append({'signature': sig, 'what': f'`{line}`: {what}'})
    opname = k + (':' + t[1] if k in ('bin', 'ibin', 'rbin', 'red') else '')
    kinds = ''
    if 'a' in info and 'b' in info: kinds = f'{kind_of(info["a"])},{kind_of(info["b"])}'

    # 1. frame: who may change
    allowed = set()
    if target is not None and k in MUTATORS:
        allowed.add(target)
        o = W.objs[target]
        if o.__class__ is SA: allowed.update(W.ids[id(r)] for r in o.rows)
    for i in changed:
        if i not in allowed:
            fail(f'frame:{opname}', f'object @{i} changed from {before[i]} to {W.show(W.objs[i])} although it is not the target')
            break
    if err and changed and err in ('rejected', 'readonly'):
        fail(f'changed-despite-error:{opname}', f'the operation raised ({info.get("exc")}) but object @{changed[0]} was modified')
    if err and err.startswith('crash:'):
        fail(f'unexpected-exception:{opname}:{err[6:]}', f'raised {info.get("exc")}')

    # 1b. a read-only object never changes (only its flag may, through setflags / read_only)
    for i in changed:
        b4 = before[i]
        if b4.startswith('sv/') and b4.endswith('/1') and k not in ('setro', 'setflags'):
            now = W.show(W.objs[i])
            if now.rsplit('/', 1)[0] != b4.rsplit('/', 1)[0]:
                fail(f'readonly-object-changed:{opname}', f'read-only object @{i} changed from {b4} to {now}')
                break
    # 2. representation invariant of everything touched or created
    known_oob = False
    sel = vshape = None
    negidx = False
    if k in ('set', 'get') and 'idx' in info:
        a_ = info['a']
        negidx = unwrapped_negative(info['idx'], a_)
        if a_.__class__ in (SV, SLV):
            known_oob = out_of_range_index(info['idx'], a_.size)
        elif a_.__class__ is SA and column_part(info['idx']) is not None:
            known_oob = out_of_range_index(column_part(info['idx']), a_.vector_size)
        sel = selection_shape(info['idx'], shape_of_obj(a_))
        if k == 'set' and info.get('dv') is not None:
            try: vshape = np.shape(info['dv'])
            except Exception: vshape = None
    # the value of an assignment is longer than what the index selects (the documented `enumerate` / `zip` without check)
    overlong = bool(k == 'set' and sel is not None and vshape and len(vshape) <= 2 and vshape[-1] > (sel[-1] if sel else 1))
    for i in list(changed) + list(fresh):
        w = W.wf_failure(W.objs[i])
        if w:
            if w == 'key-out-of-range' and k == 'set' and (known_oob or overlong) and not negidx:
                fail('setitem-out-of-range-or-overlong-stored', f'object @{i} = {W.show(W.objs[i])} holds an index outside its size')
            elif w == 'stored-zero' and W.float_mode and k in ('bin', 'ibin', 'rbin') \
                    and underflow_only(W, (W.objs[target] if k == 'ibin' else value), info):
                fail('float-underflow-stored-zero', f'object @{i} = {W.show(W.objs[i])[:120]} stores a zero where the exact result is '
                     'non-zero but below the smallest binary64 number')
            else:
                fail(f'wf:{w}:{opname}', f'object @{i} = {W.show(W.objs[i])[:200]}: {w}')
            break

    # 3. read-only targets reject writes
    if target is not None and k in ('ibin', 'set', 'clear', 'remneg', 'mixfrom', 'copylike'):
        o = W.objs[target]
        was_ro = before[target].startswith('sv/') and before[target].endswith('/1')
        if o.__class__ is SA:
            was_ro = any(before[W.ids[id(r)]].endswith('/1') and before[W.ids[id(r)]].startswith('sv/') for r in o.rows)
        if was_ro and err != 'readonly':
            fail(f'readonly-write-accepted:{opname}', f'the target is read-only but the operation '
                 + (f'raised {err}' if err else 'was carried out'))

    # 4. against NumPy
    if has_np and nperr not in ('undef', 'typeerr'):
        if err is None and nperr is None:
            # both succeeded: dense image of the result (or of the target) equals NumPy's
            if k in ('ibin', 'set', 'clear', 'remneg', 'mixfrom', 'copylike'):
                img = W.dense(W.objs[target])
            elif k in ('new', 'newsv'):
                img = W.dense(value)
            else:
                img = W.dense(value) if is_sparse(value) else value
            if img is None:
                pass    # reported by the invariant check
            elif not same_dense(img, npval) and k in ('bin', 'ibin') and info['a'].__class__ is SA and rows_mismatch(info['a'], info['b']) \
                    and same_as_documented(img, truncated_rows_expected(k, info['op'], info.get('da'), info.get('db'))):
                fail('row-count-mismatch-truncated', f'sparse gives {fmt_dense(img)} (the operator on the common rows) but NumPy broadcasts to {fmt_dense(npval)}')
            elif not same_dense(img, npval) and k == 'ibin' and info['a'].__class__ is SA and len({id(r) for r in info['a'].rows}) < len(info['a'].rows):
                fail('duplicate-row-selection-aliased', f'the target holds the same row object twice: the operator is applied to it twice '
                     f'({fmt_dense(img)}, NumPy {fmt_dense(npval)})')
            elif not same_dense(img, npval) and k == 'get' and info['a'].__class__ is SA and np.size(npval) == 0 and np.size(img) == 0:
                fail('empty-selection-loses-shape', f'an empty selection has shape {np.shape(img)}, NumPy {np.shape(npval)}')
            elif not same_dense(img, npval):
                fail(f'dense-mismatch:{opname}' + (f':{kinds}' if kinds else ''),
                     f'sparse gives {fmt_dense(img)} but NumPy gives {fmt_dense(npval)}')
        elif err is None and nperr == 'err':
            # NumPy rejects, the sparse code went ahead
            tgt = W.objs[target] if target is not None else None
            grown = False
            if k == 'ibin' and tgt.__class__ is SA:
                grown = any(before[W.ids[id(r)]].split('/')[1] == '1' and r.size != 1 for r in tgt.rows)
            def truncated_as_documented():
                e = truncated_rows_expected(k, info['op'], info.get('da'), info.get('db'))
                img = W.dense(W.objs[target]) if k == 'ibin' else (W.dense(value) if is_sparse(value) else value)
                return same_as_documented(img, e)
            if k in ('bin', 'ibin') and info['a'].__class__ is SA and rows_mismatch(info['a'], info['b'], k == 'ibin') and truncated_as_documented():
                fail('row-count-mismatch-truncated', 'operands with different numbers of rows are combined row by row up to the '
                     'shorter one (`zip`); NumPy rejects the operation')
            elif grown:
                fail('inplace-len1-target-grows', 'a length-1 row combined in place with a longer operand grew; NumPy rejects the operation')
            elif k == 'ibin' and W.dense(info['a']) is not None and before[target].split('/')[1] == '1' \
                    and W.objs[target].__class__ is not SA and W.objs[target].size != 1:
                fail('inplace-len1-target-grows', 'a length-1 target combined in place with a longer operand grew '
                     f'to {W.show(W.objs[target])}; NumPy rejects the operation (non-broadcastable output)')
            elif k in ('get', 'set') and known_oob:
                fail('index-out-of-range-accepted', 'index outside the size is accepted (NumPy raises IndexError)')
            elif k == 'set' and sel is not None and vshape and len(vshape) <= 2 \
                    and vshape[-1] != (sel[-1] if sel else 1) and vshape[-1] != 1:
                fail('setitem-length-mismatch-accepted', f'a value of length {vshape[-1]} is accepted for a selection of length '
                     f'{sel[-1] if sel else 1} (NumPy raises ValueError)')
            elif k == 'set' and sel is not None and vshape and len(vshape) == 2 and len(sel) == 2 \
                    and vshape[0] != sel[0] and vshape[0] != 1:
                fail('row-count-mismatch-truncated', f'a value with {vshape[0]} rows is assigned to {sel[0]} selected rows row by row up to '
                     'the shorter one (`zip`); NumPy rejects the operation')
            else:
                fail(f'not-rejected:{opname}' + (f':{kinds}' if kinds else ''), 'NumPy rejects this operation, the sparse code carried it out')
        elif err is None and nperr == 'nonfinite':
            # division by zero: 0/0 may be 0 (pinned by tests); x/0 must not silently give a finite number
            img = W.dense(W.objs[target]) if k == 'ibin' else (W.dense(value) if is_sparse(value) else value)
            if img is not None:
                a, b = np.asarray(img, dtype=float), np.asarray(npval, dtype=float)
                if a.shape != b.shape and k in ('bin', 'ibin') and info['a'].__class__ is SA and rows_mismatch(info['a'], info['b'], k == 'ibin'):
                    fail('row-count-mismatch-truncated', f'shape {a.shape} but NumPy {b.shape}')
                elif a.shape == b.shape:
                    bad = np.isinf(b) & np.isfinite(a)
                    ok_else = (np.isfinite(b) & (a == b)) | np.isnan(b) | np.isinf(b)
                    if bad.any():
                        fail(f'div-by-zero-silent:{opname}', f'a non-zero value divided by zero silently gives {fmt_dense(np.where(np.isfinite(a), a, 0))}')
                    elif not ok_else.all():
                        fail(f'dense-mismatch:{opname}', 'finite positions differ from NumPy')
                else:
                    fail(f'dense-mismatch:{opname}', f'shape {a.shape} but NumPy {b.shape}')
        elif err is not None and nperr is None:
            if err == 'zerodiv':
                fail(f'zerodiv-spurious:{opname}', 'ZeroDivisionError although NumPy result is finite')
            elif err == 'rejected' and k in ('bin', 'rbin', 'ibin') and is_column(info.get('b')):
                fail('rejected-valid:column-operand', f'NumPy broadcasts the (m,1) operand to {fmt_dense(npval)}, '
                     f'the sparse code raised {info.get("exc")}')
            elif err == 'rejected':
                fail(f'rejected-valid:{opname}' + (f':{kinds}' if kinds else ''), f'NumPy computes {fmt_dense(npval)}, the sparse code raised {info.get("exc")}')
        elif err == 'rejected' and nperr == 'nonfinite' and k in ('bin', 'rbin', 'ibin') and is_column(info.get('b')):
            fail('rejected-valid:column-operand', f'the sparse code raised {info.get("exc")}')
        elif err == 'rejected' and nperr == 'nonfinite':
            fail(f'rejected-valid:{opname}' + (f':{kinds}' if kinds else ''), f'the sparse code raised {info.get("exc")}')
    # negative POSITIONS (not slice bounds) are not wrapped by the vector kernels: recognised by the index alone, and only for the
    # failure families such an index can produce (boolean masks next to a column index and slices were repaired in 8812333)
    for flag, sig in ((negidx, 'negative-index-not-wrapped'),):
        if not (flag and fails): continue
        fam = ('dense-mismatch:get', 'dense-mismatch:set', 'wf:key-out-of-range', 'wf:key-not-integer', 'index-out-of-range-accepted', 'not-rejected:get',
               'not-rejected:set', 'setitem-', 'rejected-valid:get', 'rejected-valid:set')
        mine = [f for f in fails if f['signature'].startswith(fam)]
        if mine:
            fails = [f for f in fails if f not in mine]
            fails.append({'signature': sig, 'what': f'`{line}`: ' + mine[0]['what'].split(': ', 1)[-1]})
        break
    return fails


# ---- public methods that are not operations of the protocol: each is compared with NumPy on the dense image whenever an
# ---- object is converted (`toarray`), on the object as the history left it

def probe_methods(W, o, line):
    fails = []
    cls = {SV: 'SV', SLV: 'SLV', SA: 'SA'}[o.__class__]
    if o.__class__ is SA and not o.rows: return fails
    W.tags.add('probe:' + cls)
    d = o.to_array()
    boolean = d.dtype == bool
    def fail(name, what):
        fails.append({'signature': f'method-mismatch:{cls}.{name}', 'what': f'`{line}` ({W.show(o)[:80]}): {name} {what}'})
    def call(name, *args, **kw):
        try: return True, getattr(o, name)(*args, **kw)
        except Exception as e:
            fail(name, f'raised {type(e).__name__}: {e}'); return False, None
    def eq_arr(x, y):
        try:
            x, y = np.asarray(x), np.asarray(y)
            return x.shape == y.shape and bool(np.array_equal(x.astype(float), y.astype(float), equal_nan=True))
        except Exception:
            return False
    def expect(name, got, want, same=None):
        ok = same(got, want) if same else got == want
        if not ok: fail(name, f'gives {str(got)[:120]}, NumPy image says {str(want)[:120]}')
    two = d.ndim == 2
    nz = np.nonzero(d)
    pairs = lambda idx: sorted(zip(*[[int(i) for i in x] for x in idx]))
    def index_eq(got, want):
        if not isinstance(got, tuple) or len(got) != len(want): return False
        try: return pairs(got) == pairs(want)
        except Exception: return False
    # ---- conversions
    ok, v = call('tolist');  ok and expect('tolist', v, d.tolist())
    ok, v = call('to_list'); ok and expect('to_list', v, d.tolist())
    ok, v = call('to_flat_array'); ok and expect('to_flat_array', v, d.ravel(), eq_arr)
    buf = np.full(d.size, True if boolean else 7.0)
    ok, v = call('to_flat_array', buf)
    if ok:
        if v is not buf: fail('to_flat_array(arr)', 'does not return the array it was given')
        expect('to_flat_array(arr)', buf, d.ravel(), eq_arr)
    for dt in (float, bool):
        ok, v = call('astype', dt); ok and expect(f'astype({dt.__name__})', v, d.astype(dt), lambda x, y: eq_arr(x, y) and np.asarray(x).dtype == y.dtype)
        ok, v = call('to_array', dt); ok and expect(f'to_array({dt.__name__})', v, d.astype(dt), lambda x, y: eq_arr(x, y) and np.asarray(x).dtype == y.dtype)
    # ---- shape attributes
    for name, want in (('shape', d.shape), ('ndim', d.ndim), ('vector_size', d.shape[-1]), ('size', d.size)):
        try: got = getattr(o, name)
        except Exception as e: fail(name, f'raised {type(e).__name__}: {e}'); continue
        expect(name, got, want)
    if not two:
        try:
            expect('len', len(o), len(d)); expect('iter', [float(x) for x in o], [float(x) for x in d])
        except Exception as e: fail('iter', f'raised {type(e).__name__}: {e}')
    else:
        try: expect('value', o.value, d, eq_arr)
        except Exception as e: fail('value', f'raised {type(e).__name__}: {e}')
    # ---- queries
    for name in ('nonzero_index', 'nonzero'):
        ok, v = call(name); ok and expect(name, v, nz, index_eq)
    ok, v = call('positive_index'); ok and expect('positive_index', v, np.nonzero(d > 0), index_eq)
    ok, v = call('negative_index')
    if ok:
        expect('negative_index', v, np.nonzero(d < 0), index_eq)
    ok, v = call('negative_keys')
    if ok:
        expect('negative_keys', set(int(i) for i in v) if v is not None else None, set(int(i) for i in np.nonzero(d < 0)[-1]))
    ok, v = call('nonzero_keys'); ok and expect('nonzero_keys', set(int(i) for i in v), set(int(i) for i in nz[-1]))
    ok, v = call('nonzero_values'); ok and expect('nonzero_values', sorted(float(x) for x in v), sorted(float(x) for x in d[d != 0]))
    ok, v = call('nonzero_items')
    if ok:
        want = {(tuple(int(i) for i in ix) if two else int(ix[0])): float(d[ix]) for ix in zip(*nz)}
        try: got = {(tuple(int(i) for i in kk) if two else int(kk)): float(x) for kk, x in v}
        except Exception as e: got = f'{type(e).__name__}: {e}'
        expect('nonzero_items', got, want)
    ok, v = call('has_negatives'); ok and expect('has_negatives', bool(v), bool((d < 0).any()))
    if two:
        ok, v = call('nonzero_rows'); ok and expect('nonzero_rows', [int(i) for i in v], [int(i) for i in np.nonzero(d.any(axis=1))[0]])
        ok, v = call('negative_rows'); ok and expect('negative_rows', [int(i) for i in v], [int(i) for i in np.nonzero((d < 0).any(axis=1))[0]])
    # ---- equality and sharing
    try:
        c = o.copy()
        expect('sparse_equal(copy)', bool(o.sparse_equal(c)), True)
        expect('sparse_equal(array)', bool(o.sparse_equal(d)), True)
        if hasattr(o, 'shares_data_with'):
            expect('shares_data_with(self)', bool(o.shares_data_with(o)), True)
            expect('shares_data_with(copy)', bool(o.shares_data_with(c)), False)
        # from_flat_array on a copy: the reversed flat image (keeps zeros where they are not now)
        flat = np.array(d.ravel()[::-1], copy=True)
        c.from_flat_array(flat)
        expect('from_flat_array', c.to_array(), flat.reshape(d.shape), eq_arr)
        w = W.wf_failure(c)
        if w: fail('from_flat_array', f'leaves {w}')
        expect('from_flat_array(original untouched)', o.to_array(), d, eq_arr)
    except Exception as e:
        fail('copy/from_flat_array', f'raised {type(e).__name__}: {e}')
    # ---- constructors
    try:
        if cls == 'SV':
            n = SV.from_dict(dict(o.dct), o.size)
            expect('from_dict', n.to_array(), d, eq_arr); expect('from_dict.read_only', n.read_only, False)
            expect('from_size', SV.from_size(o.size).to_array(), np.zeros(o.size), eq_arr)
        elif cls == 'SLV':
            expect('from_set', SLV.from_set(set(o.set), o.size).to_array(), d, eq_arr)
            expect('from_size', SLV.from_size(o.size).to_array(), np.zeros(o.size, dtype=bool), eq_arr)
        else:
            expect('from_rows', SA.from_rows([r.copy() for r in o.rows]).to_array(), d, eq_arr)
            if not boolean: expect('from_shape', SA.from_shape(d.shape).to_array(), np.zeros(d.shape), eq_arr)
        r = sparse(d)
        expect('sparse(array)', (r.__class__, r.to_array().tolist()), (o.__class__, d.tolist()))
        r = sparse(d.tolist())
        expect('sparse(list)', (r.__class__, r.to_array().tolist()), (o.__class__, d.tolist()))
    except Exception as e:
        fail('constructors', f'raised {type(e).__name__}: {e}')
    # ---- sum_of (vectors: list and integer index; arrays: both axes)
    ncol = d.shape[-1]
    some = [j for j in range(ncol) if j % 2 == 0] or [0]
    finite = bool(np.isfinite(d.astype(float)).all())
    try:
        if not finite: pass      # (inf - inf inside a sum: thermosteam runs NumPy with errors raised)
        elif two:
            for ix, nm in ((some, 'list'), (ncol - 1, 'int')):
                want0 = d[:, ix].astype(float).sum(axis=0)
                expect(f'sum_of({nm}, axis=0)', o.sum_of(ix, axis=0) if nm == 'list' else o.sum_of(ix), want0, eq_arr)
                want1 = d[:, ix].astype(float).sum(axis=1) if nm == 'list' else d[:, ix].astype(float)
                expect(f'sum_of({nm}, axis=1)', o.sum_of(ix, axis=1), want1, eq_arr)
        else:
            expect('sum_of(list)', float(o.sum_of(some)), float(d[some].astype(float).sum()))
            expect('sum_of(int)', float(o.sum_of(ncol - 1)), float(d[ncol - 1]))
    except Exception as e:
        fail('sum_of', f'raised {type(e).__name__}: {e}')
    # ---- copy_like onto a fresh object of the same shape; a read-only part makes it fail before anything is written
    try:
        if cls == 'SV': z = SV.from_size(o.size)
        elif cls == 'SA' and not boolean: z = SA.from_shape(d.shape)
        else: z = None
        if z is not None:
            z.copy_like(o)
            expect('copy_like', z.to_array(), d, eq_arr)
            expect('copy_like(source untouched)', o.to_array(), d, eq_arr)
            if W.wf_failure(z): fail('copy_like', f'leaves {W.wf_failure(z)}')
            if cls == 'SA' and len(z.rows) > 1 and d.any():
                z = SA.from_shape(d.shape); z.rows[-1].read_only = True
                try: z.copy_like(o); raised = False
                except ValueError: raised = True
                expect('copy_like(read-only last row) raises', raised, True)
                if raised and not eq_arr(z.to_array(), np.zeros(d.shape)) and eq_arr(z.to_array()[:-1], d[:-1]) and not z.to_array()[-1].any():
                    # exactly the rows before the read-only one were written (row-by-row loop): the listed class
                    fails.append({'signature': 'sa-copylike-partial-write-before-readonly-error',
                                  'what': f'`{line}`: SparseArray.copy_like wrote the rows before a read-only row, then raised'})
                else:
                    expect('copy_like(read-only last row) writes nothing', z.to_array(), np.zeros(d.shape), eq_arr)
    except Exception as e:
        fail('copy_like', f'raised {type(e).__name__}: {e}')
    # ---- constructors from another sparse object (same kind and cross kind), `copy=` of the factory functions
    try:
        from thermosteam.base.sparse import sparse_vector, sparse_array
        if not two:
            expect('SparseVector(obj)', SV(o).to_array(), d.astype(float), eq_arr)
            expect('SparseLogicalVector(obj)', SLV(o).to_array(), d != 0, eq_arr)
            c1 = SV(o) if cls == 'SV' else SLV(o)
            expect('constructor(obj) is a copy', c1 is not o and not (hasattr(o, 'shares_data_with') and o.shares_data_with(c1)), True)
            c2 = sparse_vector(o, copy=True)
            expect('sparse_vector(copy=True)', (c2 is not o, c2.__class__, c2.to_array().tolist()), (True, o.__class__, d.tolist()))
            expect('sparse_vector(copy=False)', sparse_vector(o) is o, True)
        else:
            c2 = sparse_array(o, copy=True)
            expect('sparse_array(copy=True)', (c2 is not o, any(a is b for a in c2.rows for b in o.rows), c2.to_array().tolist()), (True, False, d.tolist()))
            expect('sparse_array(copy=False)', sparse_array(o) is o, True)
        c3 = sparse(o, copy=True)
        if c3 is o:
            fails.append({'signature': 'sparse-copy-flag-ignored', 'what': f'`{line}`: sparse(x, copy=True) returns x itself for a sparse x'})
        else:
            expect('sparse(copy=True)', (c3.__class__, c3.to_array().tolist()), (o.__class__, d.tolist()))
        expect('sparse(copy=False)', sparse(o) is o, True)
    except Exception as e:
        fail('constructors(obj)', f'raised {type(e).__name__}: {e}')
    # ---- a list on the left of an operator (reflected operators of vectors and arrays)
    if not boolean and finite and float(np.abs(d).max(initial=0)) < 1e150:
        lst = (np.abs(d.astype(float)) + 1.0).tolist()
        L = np.array(lst)
        for name, fn in (('radd', lambda x, y: x + y), ('rsub', lambda x, y: x - y), ('rmul', lambda x, y: x * y)) + \
                (() if (d == 0).any() else (('rtruediv', lambda x, y: x / y),)):
            try:
                got = fn(lst, o)
                expect(f'list.{name}', got.to_array() if is_sparse(got) else got, fn(L, d.astype(float)), eq_arr)
            except Exception as e:
                fail(f'list.{name}', f'raised {type(e).__name__}: {e}')
    # ---- scalar conversions of one-element objects; len / iter of arrays
    try:
        if d.size == 1:
            x = d.ravel()[0]
            expect('float()', float(o), float(x)); expect('int()', int(o), int(x)); expect('bool()', bool(o), bool(x))
        if two:
            expect('len', len(o), d.shape[0])
            expect('iter', [np.asarray(r.to_array()).tolist() for r in o], d.tolist())
    except Exception as e:
        fail('scalar conversion / iter', f'raised {type(e).__name__}: {e}')
    # ---- methods passed through to the dense array
    if two and not boolean:
        for name, args in (('argmax', ()), ('argmin', ()), ('prod', ()), ('cumsum', ()), ('cumprod', ()), ('round', (1,)), ('clip', (-1.0, 1.0)),
                           ('dot', (np.ones(d.shape[1]),)), ('trace', ()), ('argsort', ()), ('conj', ()), ('std', ()), ('var', ()),
                           ('__pow__', (2,)), ('__floordiv__', (2.0,)), ('__mod__', (2.0,)), ('__matmul__', (np.ones(d.shape[1]),))):
            if not hasattr(o, name) or not hasattr(d, name): continue
            try:
                with np.errstate(all='ignore'): want = getattr(d, name)(*args)
            except Exception: continue
            try:
                with np.errstate(all='ignore'): got = getattr(o, name)(*args)
            except Exception as e:
                fail(name, f'raised {type(e).__name__}: {e}'); continue
            expect(name, got, want, eq_arr)
    return fails


# --------------------------------------------------------------------------
# running a case
# --------------------------------------------------------------------------

def all_zero(o):
    """the object holds no stored entry (built as zeros or emptied by earlier operations)"""
    if o.__class__ is SV: return not o.dct
    if o.__class__ is SLV: return not o.set
    if o.__class__ is SA: return all(all_zero(r) for r in o.rows)
    return False


def zero_tags(W, line):
    """which side of a binary / in-place operator is an all-zero sparse object right now"""
    t = line.split(' ')
    if t[0] not in ('bin', 'ibin') or len(t) < 4: return None
    try:
        a = W.ref(t[2]); b = W.ref(t[3]) if t[3].startswith('@') else None
    except (IndexError, ValueError):
        return None
    if W.tags is not None and t[0] == 'ibin' and a.__class__ is SA and b.__class__ is SA and b is not a and len(b.rows) == 1 \
            and any(r is b.rows[0] for r in a.rows):
        W.tags.add('ibin-operand:own-one-row-view' + ('' if a.rows[-1] is not b.rows[0] else ':last-row'))
    za, zb = all_zero(a), (b is not None and all_zero(b))
    if not (za or zb): return None
    return 'both' if za and zb else ('self' if za else 'other')


def run_ops(ops, tags=None, float_mode=False):
    W = World(float_mode)
    outs, failures, dead = [], [], False
    nontrivial = False
    for i, line in enumerate(ops):
        if dead:
            outs.append('dead'); continue
        z = zero_tags(W, line) if tags is not None else None
        try:
            ans, fails, dies = apply(W, line)
        except Rejected:
            outs.append('bad-op'); dead = True; continue
        outs.append(ans)
        if z and not ans.startswith('skip'):
            tags.add('zero-operand:' + z)
            if ' np=err' in ans: tags.add('zero-operand:numpy-rejects')
            if ' np=err' in ans and line.split(' ')[3].startswith('@'): tags.add('zero-operand:numpy-rejects:sparse-pair')
        if '=' in ans.split(' | ')[0] and any(ch in ans for ch in '123456789'): nontrivial = True
        for f in fails:
            f['op_index'] = i
            failures.append(f)
        if dies: dead = True
    return W, outs, failures, nontrivial


def run_impl(case: Case) -> ImplResult:
    tags = set()
    py = case.meta.get('stream') == 'py'
    W, outs, failures, nontrivial = run_ops(case.ops, tags, float_mode=py)
    tags |= W.tags
    for l, o in zip(case.ops, outs):
        t = l.split(' ')
        tags.add(t[0] + (':' + t[1] if t[0] in ('bin', 'ibin', 'rbin', 'red') else ''))
        if o.startswith('err='): tags.add('err:' + o.split(' ')[0][4:])
        if ' np=err' in o: tags.add('np:err')
    # one failure per signature and case is enough
    seen, fl = set(), []
    for f in failures:
        if f['signature'] not in seen:
            seen.add(f['signature']); fl.append(f)
    if py:
        # the Python-only stream (floats of extreme magnitude, negative positions, empty and repeated selections): the Lean
        # model has no counterpart; only the oracle on the real objects judges these cases
        tags.add('stream:py'); tags.add('py:' + case.meta.get('cell', '?').split('/')[0])
        return ImplResult(model_in=[], outs=[], failures=fl, tags=sorted(tags), nontrivial=(tuple(case.ops) if nontrivial else None))
    return ImplResult(model_in=list(case.ops), outs=outs, failures=fl, tags=sorted(tags),
                      nontrivial=(tuple(case.ops) if nontrivial else None))


_SEP = None


def compare(impl_line, model_line):
    """exact, except lines the adapter marks ` | ~` (a mean: sum/size is not exact in binary64):
    same text with the numbers within 1e-12 relative"""
    global _SEP
    if impl_line == model_line: return True
    if not impl_line.endswith(' | ~'): return False
    import re
    if _SEP is None: _SEP = re.compile(r'([=,;\[\]:{}| ])')
    ta, tb = _SEP.split(impl_line[:-4]), _SEP.split(model_line)
    if len(ta) != len(tb): return False
    for x, y in zip(ta, tb):
        if x == y: continue
        try:
            fx, fy = Fraction(x), Fraction(y)
        except (ValueError, ZeroDivisionError):
            return False
        if abs(fx - fy) > Fraction(1, 10**12) * max(1, abs(fy)): return False
    return True


def disagree_signature(case, res, first):
    t = res.model_in[first].split(' ') if first < len(res.model_in) else ['length']
    return 'disagree:' + t[0] + (':' + t[1] if t[0] in ('bin', 'ibin', 'rbin', 'red') else '')


def model_tags(line):
    return []


# --------------------------------------------------------------------------
# generation
# --------------------------------------------------------------------------

POW2 = [0.25, 0.5, 1.0, 2.0, 4.0, -0.5, -1.0, -2.0]


def gen_value(rng, a=None, pow2=False, zero_p=0.35):
    r = rng.random()
    if r < zero_p: return 0.0
    if pow2: return rng.choice(POW2)
    if a is not None and r < zero_p + 0.3: return rng.choice([a, -a])
    if r < 0.8: return rng.choice([0.5, 1.0, 2.0, -1.0, 1.5, -0.5, 3.0, 0.25, -2.0])
    return rng.randrange(-64, 65) / (1 << rng.randrange(0, 4))


def gen_vals(rng, n, a=None, pow2=False, zero_p=0.35):
    return [gen_value(rng, a, pow2, zero_p) for _ in range(n)]


def vec_lit(rng, vals, kind=None):
    """a 1-d literal with the given values in one of its Python spellings"""
    kind = kind or rng.choice(['Pf', 'Pf', 'Nf', 'Nf', 'Pi', 'Ni'])
    if kind[1] == 'i' and any(v != int(v) for v in vals): kind = kind[0] + 'f'
    return lit_token(kind[0], kind[1], [len(vals)], vals)


def scalar_lit(rng, x, kind=None):
    kind = kind or rng.choice(['Pf', 'Pf', 'Pf', 'Pi', 'Nf', 'Pb'])
    if kind[1] == 'i' and x != int(x): kind = kind[0] + 'f'
    if kind[1] == 'b' and x not in (0, 1): kind = 'Pf'
    return lit_token(kind[0], kind[1], [], [x])


def wrap1(rng, tok):
    """`[x]`, `[[x]]`, `[[a, b, c]]`: leading axes of length 1 (dropped by reduce_ndim)"""
    head, data = tok.split(':')
    shape = head[2:]
    return f'{head[:2]}1{"x" + shape if shape else ""}:{data}'


def obj_vals(o):
    if o.__class__ is SV: return [o.dct.get(i, 0.0) for i in range(o.size)]
    if o.__class__ is SLV: return [float(i in o.set) for i in range(o.size)]
    return None


def is_pow2_obj(o):
    if o.__class__ is SV:
        return all(abs(v) in (0.125, 0.25, 0.5, 1.0, 2.0, 4.0, 8.0) for v in o.dct.values())
    if o.__class__ is SLV: return True
    if o.__class__ is SA: return all(is_pow2_obj(r) for r in o.rows)
    return False


class Gen:
    """adaptive generator: holds the real objects so that operands are mostly valid and exact"""
    def __init__(self, rng):
        self.rng = rng
        self.W = World()
        self.ops = []
        self.alive = True
        self.a = rng.choice([1.0, 3.0, 0.75, 5.0, 1.5])
        self.n = rng.choice([2, 3, 3, 4, 5, 6])
        self.mode = 'vector'

    def do(self, line):
        self.ops.append(line)
        try:
            _, fails, dead = apply(self.W, line)
        except Rejected:
            self.alive = False; return
        if dead or not self.W.values_small(): self.alive = False
        # an operation that should have been rejected left an object the model does not have: the history ends here
        if any(f['signature'].startswith('not-rejected') for f in fails): self.alive = False

    # ---- picking ------------------------------------------------------------
    def ids(self, cls=None, pred=None):
        return [i for i, o in enumerate(self.W.objs)
                if (cls is None or o.__class__ in cls) and (pred is None or pred(o))]

    def pick_size(self):
        r = self.rng.random()
        if r < 0.65: return self.n
        if r < 0.85: return 1
        return self.rng.randrange(1, 7)

    def new_vec(self, n=None, pow2=False, kind=None, zero_p=0.35):
        n = self.pick_size() if n is None else n
        if not pow2 and self.rng.random() < 0.06: zero_p = 1.0       # an all-zero vector
        vals = gen_vals(self.rng, n, self.a, pow2, zero_p)
        r = self.rng.random()
        if r < 0.7: self.do('new ' + vec_lit(self.rng, vals, kind))
        elif r < 0.8: self.do(f'newsv {vec_lit(self.rng, vals, kind)} _')
        elif r < 0.9:
            items = ','.join(f'{i}:{fr(v)}' for i, v in enumerate(vals) if v or self.rng.random() < 0.2) or '-'
            self.do(f'newdict {items} {n}')
        else:
            self.do(f'newsize {n}')
        return len(self.W.objs) - 1

    def operand(self, size, pow2=False, allow_mismatch=0.06, zero_p=0.3):
        """an operand for a target of the given size"""
        rng = self.rng
        r = rng.random()
        if rng.random() < allow_mismatch:
            m = rng.choice([x for x in range(2, 7) if x != size])
        elif r < 0.7: m = size
        elif r < 0.9: m = 1
        else: m = size
        kind = rng.random()
        if rng.random() < 0.05:
            # an all-zero sparse object of any size: shape rules must not depend on the stored entries
            z = self.ok_ids((SV, SLV), all_zero)
            if z: return f'@{rng.choice(z)}'
        if kind < 0.2:
            return scalar_lit(rng, gen_value(rng, self.a, pow2, 0.15))
        if kind < 0.55:
            cands = self.ids((SV, SLV), lambda o: o.size == m and (not pow2 or is_pow2_obj(o)))
            if cands: return f'@{rng.choice(cands)}'
        vals = gen_vals(rng, m, self.a, pow2, 0.05 if pow2 else zero_p)
        tok = vec_lit(rng, vals)
        if rng.random() < 0.08: tok = wrap1(rng, tok)
        return tok

    # ---- SparseArray / SparseLogicalVector -----------------------------------------
    def empty_out(self, a):
        """leave object `a` all-zero through one of the operations that can do so"""
        rng = self.rng
        o = self.W.objs[a]
        if o.__class__ is SLV:
            how = rng.choice([f'ibin and @{a} Pb:0', f'ibin xor @{a} @{a}', f'set @{a} s_:_:_ Pb:0', f'ibin mul @{a} Pb:0'])
        else:
            hows = [f'clear @{a}', f'ibin mul @{a} Pf:0', f'ibin sub @{a} @{a}', f'set @{a} s_:_:_ Pf:0']
            if o.__class__ is SV and o.size <= 6:
                hows.append(f'ibin add @{a} ' + lit_token('P', 'f', [o.size], [-float(o.dct.get(i, 0.0)) for i in range(o.size)]))
            if o.__class__ is SA and o.dtype is bool: hows = [f'clear @{a}', f'ibin and @{a} Pb:0', f'ibin xor @{a} @{a}']
            how = rng.choice(hows)
        self.do(how)

    def new_array(self, m=None, n=None, boolean=False, pow2=False):
        rng = self.rng
        m = m or rng.choice([1, 2, 2, 3]); n = n or self.pick_size()
        vals = gen_vals(rng, m * n, self.a, pow2, 0.4)
        if not pow2 and rng.random() < 0.05: vals = [0.0] * (m * n)
        if boolean: vals = [float(v != 0) for v in vals]
        self.do('new ' + lit_token(rng.choice('PN'), 'b' if boolean else 'f', [m, n], vals))
        return len(self.W.objs) - 1

    def new_logical(self, n=None):
        n = n or self.pick_size()
        self.do('new ' + lit_token(self.rng.choice('PN'), 'b', [n], [float(self.rng.random() < 0.5) for _ in range(n)]))
        return len(self.W.objs) - 1

    def ok_ids(self, cls=None, pred=None):
        """objects whose representation is intact"""
        return [i for i in self.ids(cls, pred) if self.W.wf_failure(self.W.objs[i]) is None]

    def array_operand(self, m, n, boolean, pow2=False):
        """an operand for a (m, n) array"""
        rng = self.rng
        r = rng.random()
        bt = 'b' if boolean and rng.random() < 0.7 else 'f'
        def vals(k):
            v = gen_vals(rng, k, self.a, pow2, 0.05 if pow2 else 0.3)
            return [float(x != 0) for x in v] if bt == 'b' else v
        if rng.random() < 0.05:
            z = self.ok_ids((SV, SLV, SA), lambda o: all_zero(o) and (o.__class__ is not SA or len(o.rows) in (m, 1)))
            if z: return f'@{rng.choice(z)}'
        if r < 0.15:
            x = gen_value(rng, self.a, pow2, 0.15)
            return scalar_lit(rng, float(x != 0), 'Pb') if bt == 'b' else scalar_lit(rng, x, rng.choice(['Pf', 'Pf', 'Nf']))
        if r < 0.30:
            k = n if rng.random() < 0.85 else rng.choice([1, n + 1])
            return lit_token(rng.choice('PN'), bt, [k], vals(k))
        if r < 0.50:
            mm = rng.choice([m, m, m, 1]) if rng.random() < 0.93 else m + 1
            return lit_token(rng.choice('PN'), bt, [mm, n], vals(mm * n))
        if r < 0.70:
            c = self.ok_ids((SV, SLV), lambda o: o.size in (n, 1) and (not pow2 or is_pow2_obj(o)))
            if c: return f'@{rng.choice(c)}'
        c = self.ok_ids((SA,), lambda o: o.vector_size == n and len(o.rows) in (m, 1) and (not pow2 or is_pow2_obj(o)))
        if rng.random() < 0.04:
            c = self.ok_ids((SA,), lambda o: o.vector_size == n and (not pow2 or is_pow2_obj(o))) or c
        if c: return f'@{rng.choice(c)}'
        return lit_token('P', bt, [m, n], vals(m * n))

    _bool_target = False

    def index2(self, m, n):
        """an index expression of a (m, n) array, with the shape of what it selects"""
        rng = self.rng
        def rowidx():
            r = rng.random()
            if r < 0.35: i = rng.randrange(m); return f'i{i}', None
            if r < 0.6:
                if rng.random() < 0.5: return 's_:_:_', m
                a = rng.randrange(m); b = rng.randrange(a + 1, m + 1); return f's{a}:{b}:_', b - a
            if r < 0.85:
                # (no row twice: `sa[[0, 0]]` shares the row object, an in-place operator would hit it twice)
                k = rng.randrange(1, m + 1); l = rng.sample(range(m), k)
                return rng.choice('fF') + ','.join(map(str, l)), k
            mk = [rng.random() < 0.6 for _ in range(m)]
            if not any(mk): mk[rng.randrange(m)] = True      # (an empty selection loses the column count)
            return rng.choice('mM') + ','.join(str(int(x)) for x in mk), sum(mk)
        def colidx():
            tok, c = self.index(n, count=True)
            tok = tok.lstrip('t')
            return tok, (None if tok.startswith('i') else c)
        if rng.random() < 0.35:
            tok, h = rowidx()
            return tok, (h, n)
        (rt, h), (ct, w) = rowidx(), colidx()
        # pairs of advanced indices: the code supports (list, int) and (list, list of the same length)
        if rt[0] in 'fFmM' and ct[0] in 'fFmM':
            k = rng.randrange(1, 4)
            rt = 'f' + ','.join(str(rng.randrange(m)) for _ in range(k)); ct = 'f' + ','.join(str(rng.randrange(n)) for _ in range(k))
            return f'{rt}|{ct}', (None, k)

        if rt[0] in 'mM' and not ct.startswith('s'):
            rt = 'f' + ','.join(str(i) for i, x in enumerate(rt[1:].split(',')) if x == '1') if '1' in rt else 'i0'
            h = None if rt.startswith('i') else len(rt[1:].split(','))
        if rt[0] in 'fF' and ct[0] == 'i':
            return f'{rt}|{ct}', (None, h)
        return f'{rt}|{ct}', (h, w)

    def value_for(self, shape, boolean):
        """a value that NumPy can broadcast to the selection `shape` = (h, w), None = axis dropped"""
        rng = self.rng
        h, w = shape
        bt = 'b' if boolean and rng.random() < 0.7 else 'f'
        def vals(k):
            v = gen_vals(rng, k, self.a, False, 0.3)
            return [float(x != 0) for x in v] if bt == 'b' else v
        r = rng.random()
        if r < 0.4 or (h is None and w is None) or w == 0 or h == 0:
            return scalar_lit(rng, vals(1)[0], 'Pb' if bt == 'b' else 'Pf')
        if h is None or w is None:
            k = w if h is None else h
            if r < 0.85: return lit_token(rng.choice('PN'), bt, [k], vals(k))
            c = self.ok_ids((SV, SLV), lambda o: o.size == k)
            return f'@{rng.choice(c)}' if c else lit_token('P', bt, [k], vals(k))
        if r < 0.6: return lit_token(rng.choice('PN'), bt, [w], vals(w))
        if r < 0.7:
            c = self.ok_ids((SV, SLV), lambda o: o.size == w)
            if c: return f'@{rng.choice(c)}'
        if r < 0.9: return lit_token(rng.choice('PN'), bt, [h, w], vals(h * w))
        c = self.ok_ids((SA,), lambda o: o.vector_size == w and len(o.rows) == h)
        return f'@{rng.choice(c)}' if c else lit_token('P', bt, [h, w], vals(h * w))

    def step_array(self, a):
        rng = self.rng
        o = self.W.objs[a]
        m, n = len(o.rows), o.vector_size
        boolean = o.dtype is bool
        kind = rng.choices(['bin', 'ibin', 'rbin', 'get', 'set', 'red', 'unary', 'copy', 'query', 'flags', 'clear', 'rowop', 'zero'],
                           [20, 20, 3, 12, 14, 12, 4, 3, 4, 2, 1, 5, 2])[0]
        if kind == 'zero':
            self.empty_out(a)
        elif kind == 'bin':
            ops = (('add', 'mul', 'truediv', 'and', 'or', 'xor', 'sub') + CMP) if boolean else (ARITH * 3 + CMP + ('and',))
            op = rng.choice(ops)
            self.do(f'bin {op} @{a} {self.array_operand(m, n, boolean, pow2=(op == "truediv"))}')
        elif kind == 'ibin':
            op = rng.choice(('add', 'mul', 'and', 'or', 'xor', 'truediv', 'sub') if boolean else ARITH)
            b = self.array_operand(m, n, boolean, pow2=(op == 'truediv'))
            if rng.random() < 0.05: b = f'@{a}'
            if rng.random() < 0.05 and o.rows: b = f'@{self.W.ids[id(rng.choice(o.rows))]}'
            if rng.random() < 0.07 and o.rows and self.alive:
                # a ONE-ROW selection of the target itself as the operand (`A op= A[k:k+1]`, `A op= A[[k]]`): NumPy evaluates the
                # operand before writing, so every row must see the ORIGINAL row k
                kk = rng.randrange(m)
                self.do(f'get @{a} ' + rng.choice([f's{kk}:{kk + 1}:_', f'f{kk}', f'F{kk}', 'm' + ','.join('1' if i == kk else '0' for i in range(m))]))
                if not self.alive: return
                b = f'@{len(self.W.objs) - 1}'
            if op == 'truediv' and b.startswith('@') and not is_pow2_obj(self.W.objs[int(b[1:])]): op = 'mul'
            if b.startswith('@') and b != f'@{a}' and self.W.objs[int(b[1:])].__class__ is SA and o.shares_data_with(self.W.objs[int(b[1:])]) \
                    and len(self.W.objs[int(b[1:])].rows) != 1:
                b = scalar_lit(rng, 2.0, 'Pf')      # (a MULTI-row array over some of the same row objects: rows are read after being written)
            self.do(f'ibin {op} @{a} {b}')
        elif kind == 'rbin':
            op = rng.choice(('add', 'sub', 'mul', 'gt', 'eq'))
            self.do(f'rbin {op} {scalar_lit(rng, gen_value(rng, self.a, False, 0.15), "Pf")} @{a}')
        elif kind == 'get':
            self.do(f'get @{a} {self.index2(m, n)[0]}')
        elif kind == 'set':
            self._bool_target = boolean
            idx, shape = self.index2(m, n)
            self._bool_target = False
            v = self.value_for(shape, boolean)
            if v == f'@{a}' or (v.startswith('@') and o.shares_data_with(self.W.objs[int(v[1:])])):
                v = scalar_lit(rng, 1.0, 'Pf')       # (the array or one of its rows as the value: read while written)
            self.do(f'set @{a} {idx} {v}')
        elif kind == 'red':
            r = rng.choice(['sum', 'any', 'all', 'max', 'min', 'mean'])
            ax = rng.choice(['_', '0', '1', '_', '0', '1', '2'])
            kd = rng.random() < 0.4
            if r == 'mean':
                div = {'_': m * n, '0': m, '1': n, '2': 1}[ax]
                if div & (div - 1): r = 'sum'
            self.do(f'red {r} @{a} {ax} {1 if kd else 0}')
        elif kind == 'unary':
            self.do(f'{rng.choice(["neg", "abs", "inv"] if boolean else ["neg", "abs"])} @{a}')
        elif kind == 'copy':
            self.do(rng.choice([f'copy @{a}', f'toarray @{a}', f'get @{a} s_:_:_']))
        elif kind == 'query':
            self.do(f'{rng.choice(["hasneg", "nzkeys", "negkeys"])} @{a}')
        elif kind == 'flags':
            if not boolean: self.do(f'setflags @{a}')
        elif kind == 'clear':
            self.do(rng.choice([f'clear @{a}', f'remneg @{a}']))
        elif kind == 'rowop':
            # work on a row through its own handle: the array must follow; sometimes freeze / thaw that row only
            k = rng.randrange(m)
            self.do(f'get @{a} i{k}')
            rid = self.W.ids[id(o.rows[k])]
            if not boolean and self.alive and rng.random() < 0.4:
                self.do(rng.choice([f'setflags @{rid}', f'setflags @{rid}', f'setro @{rid} 0']))

    def step_logical(self, a):
        rng = self.rng
        o = self.W.objs[a]
        n = o.size
        kind = rng.choices(['bin', 'ibin', 'rbin', 'get', 'set', 'red', 'unary', 'copy', 'query', 'zero'],
                           [25, 25, 3, 10, 12, 10, 6, 4, 5, 2])[0]
        if kind == 'zero':
            self.empty_out(a); return
        def operand(pow2=False):
            r = rng.random()
            m = n if rng.random() < 0.85 else rng.choice([1, n + 1])
            if rng.random() < 0.05:
                z = self.ok_ids((SV, SLV), all_zero)
                if z: return f'@{rng.choice(z)}'
            if r < 0.2: return scalar_lit(rng, float(rng.random() < 0.6), 'Pb')
            if r < 0.3: return scalar_lit(rng, gen_value(rng, self.a, pow2, 0.2), 'Pf')
            if r < 0.55:
                c = self.ok_ids((SLV,), lambda x: x.size == m)
                if c: return f'@{rng.choice(c)}'
            if r < 0.65:
                c = self.ok_ids((SV,), lambda x: x.size == m and (not pow2 or is_pow2_obj(x)))
                if c: return f'@{rng.choice(c)}'
            if r < 0.9: return lit_token(rng.choice('PN'), 'b', [m], [float(rng.random() < 0.5) for _ in range(m)])
            return vec_lit(rng, gen_vals(rng, m, self.a, pow2, 0.05 if pow2 else 0.3), 'Pf')
        if kind == 'bin':
            op = rng.choice(('add', 'sub', 'mul', 'truediv', 'and', 'or', 'xor') * 2 + CMP)
            self.do(f'bin {op} @{a} {operand(op == "truediv")}')
        elif kind == 'ibin':
            op = rng.choice(('add', 'mul', 'truediv', 'and', 'or', 'xor', 'and', 'or', 'xor', 'sub'))
            b = operand(op == 'truediv')
            if n == 1 and rng.random() < 0.85 and b.startswith('@') and self.W.objs[int(b[1:])].size != 1: b = 'Pb:1'
            if rng.random() < 0.05: b = f'@{a}'
            self.do(f'ibin {op} @{a} {b}')
        elif kind == 'rbin':
            self.do(f'rbin {rng.choice(("add", "mul", "sub", "eq", "gt"))} {scalar_lit(rng, float(rng.random() < 0.5), rng.choice(["Pb", "Pf"]))} @{a}')
        elif kind == 'get':
            self.do(f'get @{a} {self.index(n)}')
        elif kind == 'set':
            idx, cnt = self.index(n, count=True)
            r = rng.random()
            if idx.lstrip('t').startswith('i') or r < 0.45 or cnt == 0:
                v = scalar_lit(rng, float(rng.random() < 0.5), rng.choice(['Pb', 'Pb', 'Pf']))
            elif r < 0.85:
                v = lit_token(rng.choice('PN'), 'b', [cnt], [float(rng.random() < 0.5) for _ in range(cnt)])
            else:
                c = [i for i in self.ok_ids((SV, SLV), lambda x: x.size == cnt) if i != a or idx == 's_:_:_']
                v = f'@{rng.choice(c)}' if c else 'Pb:1'
            self.do(f'set @{a} {idx} {v}')
        elif kind == 'red':
            r = rng.choice(['sum', 'any', 'all', 'max', 'min', 'mean'])
            kd = rng.random() < 0.35
            if r == 'mean' and n not in (1, 2, 4): r = 'sum'
            self.do(f'red {r} @{a} {rng.choice(["_", "0", "1"])} {1 if kd else 0}')
        elif kind == 'unary':
            self.do(f'{rng.choice(["inv", "inv", "neg", "abs"])} @{a}')
        elif kind == 'copy':
            self.do(rng.choice([f'copy @{a}', f'copyctor @{a}', f'toarray @{a}', f'get @{a} s_:_:_']))
        elif kind == 'query':
            q = rng.choice(['hasneg', 'nzkeys', 'nzitems', 'poskeys', 'sumof', 'remneg'])
            if q == 'sumof': self.do(f'sumof @{a} {",".join(str(rng.randrange(n)) for _ in range(rng.randrange(1, 4)))}')
            else: self.do(f'{q} @{a}')

    # ---- one random op ---------------------------------------------------------
    def step(self):
        rng = self.rng
        r = rng.random()
        arrays, logicals = self.ok_ids((SA,), lambda o: len(o.rows) > 0), self.ok_ids((SLV,))
        if self.mode in ('array', 'mixed') and r < (0.55 if self.mode == 'array' else 0.3):
            if not arrays or rng.random() < 0.04:
                self.new_array(boolean=(rng.random() < 0.25)); return
            self.step_array(rng.choice(arrays)); return
        if self.mode in ('logical', 'mixed') and r < (0.85 if self.mode != 'mixed' else 0.5):
            if not logicals or rng.random() < 0.04:
                self.new_logical(); return
            self.step_logical(rng.choice(logicals)); return
        if rng.random() < 0.03 and self.mode != 'vector':
            c = self.ok_ids((SV,), lambda o: o.size == self.n)
            if len(c) >= 2:
                self.do(f'newsa {",".join(f"@{i}" for i in rng.sample(c, rng.choice([1, 2, 2])))}'); return
        vecs = self.ok_ids((SV,))
        if not vecs:
            self.new_vec(); return
        kind = rng.choices(
            ['bin', 'ibin', 'rbin', 'get', 'set', 'red', 'unary', 'copy', 'query', 'flags', 'mixfrom', 'clear',
             'remneg', 'copylike', 'new', 'cmpuse', 'deviate', 'zero'],
            [22, 24, 4, 8, 12, 6, 3, 3, 5, 2, 3, 1, 1, 1, 5, 3, 1, 2])[0]
        a = rng.choice(vecs)
        if kind == 'zero':
            if not self.W.objs[a].read_only: self.empty_out(a)
            return
        o = self.W.objs[a]
        n = o.size
        if kind == 'bin':
            op = rng.choice(ARITH * 3 + CMP + ('and',) if rng.random() < 0.97 else LOGIC)
            b = self.operand(n, pow2=(op == 'truediv'))
            self.do(f'bin {op} @{a} {b}')
        elif kind == 'ibin':
            op = rng.choice(ARITH)
            if n == 1 and rng.random() < 0.85:
                # keep the known length-1-grows class to a small share
                b = self.operand(1, pow2=(op == 'truediv'), allow_mismatch=0)
                if b.startswith('@') and self.W.objs[int(b[1:])].size != 1: b = scalar_lit(rng, 2.0)
            else:
                b = self.operand(n, pow2=(op == 'truediv'))
            if rng.random() < 0.06: b = f'@{a}'
            if op == 'truediv' and b.startswith('@') and not is_pow2_obj(self.W.objs[int(b[1:])]): op = 'mul'
            self.do(f'ibin {op} @{a} {b}')
        elif kind == 'rbin':
            op = rng.choice(ARITH + ('gt', 'le', 'eq'))
            if op == 'truediv' and not is_pow2_obj(o): op = 'sub'
            if rng.random() < 0.7: b = scalar_lit(rng, gen_value(rng, self.a, False, 0.15), rng.choice(['Pf', 'Pi']))
            else: b = vec_lit(rng, gen_vals(rng, n, self.a), 'Pf')
            self.do(f'rbin {op} {b} @{a}')
        elif kind == 'get':
            self.do(f'get @{a} {self.index(n)}')
        elif kind == 'set':
            idx, cnt = self.index(n, count=True)
            r = rng.random()
            if idx.lstrip('t').startswith('i') or r < 0.4:
                v = scalar_lit(rng, gen_value(rng, self.a, False, 0.3))
                if rng.random() < 0.1: v = wrap1(rng, v)
            elif r < 0.85:
                v = vec_lit(rng, gen_vals(rng, cnt, self.a))
                if rng.random() < 0.1: v = wrap1(rng, v)
            else:
                # (the target itself as value of a fancy assignment is not generated: `zip(index, value)` reads
                # the target while it is being written)
                cands = [i for i in self.ids((SV, SLV), lambda x: x.size == cnt) if i != a or idx == 's_:_:_']
                v = f'@{rng.choice(cands)}' if cands else scalar_lit(rng, 1.0)
            self.do(f'set @{a} {idx} {v}')
        elif kind == 'red':
            r = rng.choice(['sum', 'any', 'all', 'max', 'min', 'mean'])
            kd = rng.random() < 0.35
            if r == 'mean' and kd and n not in (1, 2, 4): kd = False
            ax = rng.choice(['_', '_', '0', '0', '1'])
            self.do(f'red {r} @{a} {ax} {1 if kd else 0}')
        elif kind == 'unary':
            self.do(f'{rng.choice(["neg", "abs"])} @{a}')
        elif kind == 'copy':
            self.do(rng.choice([f'copy @{a}', f'copyctor @{a}', f'toarray @{a}', f'get @{a} s_:_:_']))
        elif kind == 'query':
            q = rng.choice(['hasneg', 'nzkeys', 'nzitems', 'negkeys', 'poskeys', 'sumof', 'speq'])
            if q == 'sumof':
                self.do(f'sumof @{a} {",".join(str(rng.randrange(n)) for _ in range(rng.randrange(1, 4)))}')
            elif q == 'speq':
                cands = self.ids((SV,), lambda x: x.size == n)
                b = f'@{rng.choice(cands)}' if rng.random() < 0.5 else vec_lit(rng, obj_vals(o) if rng.random() < 0.5 else gen_vals(rng, n, self.a))
                self.do(f'speq @{a} {b}')
            else:
                self.do(f'{q} @{a}')
        elif kind == 'flags':
            # (also on a row object of an array: the array is then in a mixed read-only state)
            self.do(rng.choice([f'setflags @{a}', f'setro @{a} 1', f'setro @{a} 0', f'setro @{a} 0']))
        elif kind == 'mixfrom':
            cands = self.ids((SV, SLV), lambda x: x.size == n)
            others = [rng.choice(cands) for _ in range(rng.randrange(0, 4))]
            self.do(f'mixfrom @{a} {",".join(f"@{i}" for i in others) or "-"}')
        elif kind == 'clear':
            self.do(f'clear @{a}')
        elif kind == 'remneg':
            self.do(f'remneg @{a}')
        elif kind == 'copylike':
            cands = self.ids((SV,), lambda x: x.size == n)
            self.do(f'copylike @{a} @{rng.choice(cands)}')
        elif kind == 'new':
            self.new_vec()
        elif kind == 'cmpuse':
            # use a comparison result as boolean index
            masks = self.ids((SLV,), lambda x: x.size == n)
            if masks:
                m = rng.choice(masks)
                mk = ('m' if rng.random() < 0.5 else 'M') + ','.join(str(int(i in self.W.objs[m].set)) for i in range(n))
                if rng.random() < 0.5: self.do(f'get @{a} {mk}')
                else: self.do(f'set @{a} {mk} {scalar_lit(rng, gen_value(rng, self.a))}')
            else:
                self.do(f'bin {rng.choice(CMP)} @{a} {scalar_lit(rng, 0.0)}')
        elif kind == 'deviate':
            # the classes that are known / pinned deviations from NumPy: a small share
            r = rng.random()
            if r < 0.35:
                b = rng.choice(self.ids((SV,), lambda x: x.size > 1) or [a])
                ones = self.ids((SV,), lambda x: x.size == 1 and not x.read_only)
                if ones: self.do(f'ibin {rng.choice(ARITH[:3])} @{rng.choice(ones)} @{b}')
            elif r < 0.6:
                self.do(f'set @{a} i{n + rng.randrange(0, 3)} {scalar_lit(rng, gen_value(rng, self.a, False, 0.2))}')
            elif r < 0.75:
                self.do(f'get @{a} i{n + rng.randrange(0, 3)}')
            else:
                m = rng.choice([x for x in range(1, 8) if x != n and x != 1])
                self.do(f'set @{a} s_:_:_ {vec_lit(rng, gen_vals(rng, m, self.a))}')

    def index(self, n, count=False):
        """a 1-d index within the size; with count=True also how many positions it selects"""
        rng = self.rng
        r = rng.random()
        if r < 0.3:
            i = rng.randrange(n); tok, c = f'i{i}', 1
        elif r < 0.55:
            if rng.random() < 0.35: tok, c = 's_:_:_', n
            else:
                a = rng.choice([None] + list(range(n))); b = rng.choice([None] + list(range(n + 1)))
                st = rng.choice([None, None, 1, 2, 3])
                sel = range(n)[slice(a, b, st)]
                tok = f's{"_" if a is None else a}:{"_" if b is None else b}:{"_" if st is None else st}'; c = len(sel)
        elif r < 0.8:
            k = rng.randrange(1, n + 1)
            l = [rng.randrange(n) for _ in range(k)] if rng.random() < 0.3 else rng.sample(range(n), k)
            tok, c = rng.choice('fF') + ','.join(map(str, l)), k
        else:
            m = [rng.random() < 0.5 for _ in range(n)]
            tok, c = rng.choice('mM') + ','.join(str(int(x)) for x in m), sum(m)
        if rng.random() < 0.1: tok = 't' + tok
        return (tok, c) if count else tok


def gen_history(rng, length, mode='vector'):
    g = Gen(rng)
    g.mode = mode
    for _ in range(rng.randrange(2, 5)): g.new_vec()
    if mode in ('array', 'mixed'):
        g.new_array(); g.new_array(boolean=(rng.random() < 0.3))
    if mode in ('logical', 'mixed'):
        g.new_logical(g.n); g.new_logical()
    while g.alive and len(g.ops) < length:
        g.step()
    return Case(g.ops, {'kind': 'history'})


# ---- the grid: operand kind × operator × shape relation ---------------------------

def grid_cases(rng):
    """every (operator, in-place?, operand kind, shape relation) once, with fresh values"""
    cases = []
    rels = ['eq', 'self1', 'other1', 'mismatch']
    okinds = ['Pf', 'Pi', 'Pb', 'Nf', 'N0', 'list', 'ndarray', 'ndint', 'listb', 'ndb', 'wrap', 'ndwrap', 'mat', 'ndmat',
              'ndcol', 'SV', 'SLV']
    for inplace in (False, True):
        for op in (ARITH + CMP + LOGIC if not inplace else ARITH + LOGIC):
            for ok in okinds:
                scalar = ok in ('Pf', 'Pi', 'Pb', 'Nf', 'N0')
                for rel in (['eq'] if scalar else rels):
                    n = rng.choice([2, 3, 4])
                    a = rng.choice([1.0, 3.0, 0.75])
                    pow2 = op == 'truediv'
                    sn, on = {'eq': (n, n), 'self1': (1, n), 'other1': (n, 1), 'mismatch': (n, n + 1)}[rel]
                    svals = gen_vals(rng, sn, a, False, 0.3)
                    if rng.random() < 0.5 and rel == 'eq' and op in ('add', 'sub'):
                        # exact cancellation somewhere
                        ovals = [(-v if op == 'add' else v) if rng.random() < 0.6 else gen_value(rng, a, pow2) for v in svals]
                    else:
                        ovals = gen_vals(rng, on, a, pow2, 0.1 if pow2 else 0.3)
                    ops = ['new ' + lit_token('P', 'f', [sn], svals)]
                    x = gen_value(rng, a, pow2, 0.1)
                    if ok == 'Pf': b = lit_token('P', 'f', [], [x])
                    elif ok == 'Pi': b = lit_token('P', 'i', [], [float(int(x) or 2)])
                    elif ok == 'Pb': b = lit_token('P', 'b', [], [1.0 if rng.random() < 0.6 else 0.0])
                    elif ok == 'Nf': b = lit_token('N', 'f', [], [x])
                    elif ok == 'N0': b = lit_token('N', 'f', [], [x]).replace('Nf:', 'Nf:')
                    elif ok == 'list': b = lit_token('P', 'f', [on], ovals)
                    elif ok == 'ndarray': b = lit_token('N', 'f', [on], ovals)
                    elif ok == 'ndint': b = lit_token('N', 'i', [on], [float(int(v)) or (1.0 if pow2 else 0.0) for v in ovals])
                    elif ok == 'listb': b = lit_token('P', 'b', [on], [float(v != 0) for v in ovals])
                    elif ok == 'ndb': b = lit_token('N', 'b', [on], [float(v != 0) for v in ovals])
                    elif ok == 'wrap': b = lit_token('P', 'f', [1, on], ovals)
                    elif ok == 'ndwrap': b = lit_token('N', 'f', [1, 1, on], ovals)
                    elif ok == 'mat': b = lit_token('P', 'f', [2, on], ovals + gen_vals(rng, on, a, pow2, 0.1 if pow2 else 0.3))
                    elif ok == 'ndmat': b = lit_token('N', 'f', [2, on], ovals + gen_vals(rng, on, a, pow2, 0.1 if pow2 else 0.3))
                    elif ok == 'ndcol': b = lit_token('N', 'f', [on, 1], ovals)
                    elif ok == 'SV':
                        ops.append('new ' + lit_token('P', 'f', [on], ovals)); b = '@1'
                    elif ok == 'SLV':
                        ops.append('new ' + lit_token('P', 'b', [on], [float(v != 0) for v in ovals])); b = '@1'
                    ops.append(f'{"ibin" if inplace else "bin"} {op} @0 {b}')
                    ops.append('toarray @0')
                    cases.append(Case(ops, {'kind': 'grid', 'cell': f'{"i" if inplace else ""}{op}/{ok}/{rel}'}))
    # reflected operators
    for op in ARITH + CMP:
        for ok in ('Pf', 'Pi', 'list'):
            n = rng.choice([2, 3])
            pow2 = op == 'truediv'
            svals = gen_vals(rng, n, 1.0, pow2, 0.0 if pow2 and rng.random() < 0.7 else 0.3)
            b = lit_token('P', ok[1], [], [gen_value(rng, 1.0, False, 0.2) if ok == 'Pf' else 2.0]) if ok != 'list' \
                else lit_token('P', 'f', [n], gen_vals(rng, n, 1.0))
            cases.append(Case(['new ' + lit_token('P', 'f', [n], svals), f'rbin {op} {b} @0'], {'kind': 'grid', 'cell': f'r{op}/{ok}'}))
    # indexing grid: index kind × value kind
    for ik in ('i', 's', 'sopen', 'f', 'F', 'm', 'M', 'ti', 'tf'):
        for vk in ('get', 'Pf', 'Pf0', 'list', 'nd', 'wrap', 'SV', 'SV1', 'SLV', 'self', 'mat'):
            n = rng.choice([3, 4, 5])
            svals = gen_vals(rng, n, 1.0)
            if ik in ('i', 'ti'): idx, c = f'i{rng.randrange(n)}', 1
            elif ik == 's': a0 = rng.randrange(n); idx, c = f's{a0}:_:_', n - a0
            elif ik == 'sopen': idx, c = 's_:_:_', n
            elif ik in ('f', 'F', 'tf'):
                l = rng.sample(range(n), rng.randrange(1, n + 1)); idx, c = ik[-1] + ','.join(map(str, l)), len(l)
            else:
                m = [rng.random() < 0.6 for _ in range(n)]; idx, c = ik + ','.join(str(int(x)) for x in m), sum(m)
            if ik.startswith('t'): idx = 't' + idx
            ops = ['new ' + lit_token('P', 'f', [n], svals)]
            if vk == 'get': ops.append(f'get @0 {idx}')
            else:
                vals = gen_vals(rng, c, 1.0)
                if vk == 'Pf': v = lit_token('P', 'f', [], [gen_value(rng, 1.0, False, 0.0)])
                elif vk == 'Pf0': v = lit_token('P', 'f', [], [0.0])
                elif vk == 'list': v = lit_token('P', 'f', [c], vals)
                elif vk == 'nd': v = lit_token('N', 'f', [c], vals)
                elif vk == 'wrap': v = lit_token('P', 'f', [1, c], vals)
                elif vk == 'mat': v = lit_token('P', 'f', [2, c], vals + vals)
                elif vk == 'SV': ops.append('new ' + lit_token('P', 'f', [c], vals)); v = '@1'
                elif vk == 'SV1': ops.append('new ' + lit_token('P', 'f', [1], [2.0])); v = '@1'
                elif vk == 'SLV': ops.append('new ' + lit_token('P', 'b', [c], [float(x != 0) for x in vals])); v = '@1'
                elif vk == 'self': v = '@0'
                if c == 0 and vk in ('list', 'nd', 'wrap', 'mat', 'SV', 'SLV'): continue
                if vk == 'self' and ik != 'sopen': continue
                ops.append(f'set @0 {idx} {v}')
            ops.append('toarray @0')
            cases.append(Case(ops, {'kind': 'grid', 'cell': f'idx/{ik}/{vk}'}))
    # reductions and queries
    for vals in ([0.0, 0.0, 0.0], [1.0, 2.0, 0.5], [-1.0, -2.0, -0.5], [-1.0, 0.0, 2.0], [0.0, -3.0, 0.0], [4.0], [0.0],
                 gen_vals(rng, 4, 1.0)):
        ops = ['new ' + lit_token('P', 'f', [len(vals)], vals)]
        for r in ('sum', 'any', 'all', 'max', 'min', 'mean'):
            for ax in ('_', '0', '1'):
                for kd in (0, 1):
                    if r == 'mean' and kd and len(vals) not in (1, 2, 4): continue
                    ops.append(f'red {r} @0 {ax} {kd}')
        ops += ['hasneg @0', 'nzkeys @0', 'nzitems @0', 'negkeys @0', 'poskeys @0', 'neg @0', 'abs @0', 'copy @0',
                'copyctor @0', 'toarray @0', 'sumof @0 0', 'remneg @0', 'toarray @0', 'clear @0', 'toarray @0']
        cases.append(Case(ops, {'kind': 'grid', 'cell': 'reductions'}))
    # read-only: every mutator on a read-only target
    for mut in ('ibin add @0 Pf:1', 'ibin sub @0 @1', 'ibin mul @0 Pf3:1,2,0', 'ibin truediv @0 Pf:2', 'set @0 i0 Pf:1',
                'set @0 s_:_:_ Pf:0', 'set @0 f0,1 Pf2:1,1', 'clear @0', 'remneg @0', 'mixfrom @0 @1', 'copylike @0 @1'):
        for how in ('setflags @0', 'setro @0 1'):
            cases.append(Case(['new Pf3:1,0,-2', 'new Pf3:0,1,1', how, mut, 'toarray @0', 'setro @0 0', mut, 'toarray @0'],
                              {'kind': 'grid', 'cell': 'readonly'}))
    cases += grid_logical(rng) + grid_array(rng) + grid_zero(rng) + grid_cancel(rng)
    return cases


def grid_cancel(rng):
    """exact cancellation under every broadcasting relation: `x + y` / `x - y` (binary and in place) where some elements of
    the result are exactly 0 although both operands are stored there; equal lengths, a length-1 LEFT operand broadcast over
    the right one, a length-1 RIGHT operand; vector targets and arrays (row-wise, incl. rows of length 1); sparse and dense
    operands.  The result must not store a zero.  (exact dyadic values: part of the model stream)"""
    cases = []
    def nz(k): return [rng.choice([0.5, 1.0, -1.0, 2.5, -2.5, 3.0, -4.0]) for _ in range(k)]
    for op in ('add', 'sub'):
        sign = -1.0 if op == 'add' else 1.0
        for rel in ('eq', 'self1', 'other1'):
            for ok in ('SV', 'list', 'nd', 'wrap'):
                for inplace in (False, True):
                    if inplace and rel == 'self1': continue      # (a length-1 target of an in-place operator: the listed growth class)
                    for rep in range(3):
                        n = rng.choice([2, 3, 4])
                        sn, on = {'eq': (n, n), 'self1': (1, n), 'other1': (n, 1)}[rel]
                        sv = nz(sn)
                        if rel == 'other1':
                            c = rng.choice(sv); sv = [c if rng.random() < 0.6 else x for x in sv]; sv[rng.randrange(sn)] = c
                            ov = [sign * c]
                        else:
                            ov = [sign * sv[i % sn] if rng.random() < 0.6 else rng.choice([0.0, 1.5, -3.5]) for i in range(on)]
                            ov[rng.randrange(on)] = sign * sv[0] if rel == 'self1' else ov[0]
                            if rel == 'eq': ov[0] = sign * sv[0]
                        ops = ['new ' + lit_token('P', 'f', [sn], sv)]
                        if ok == 'SV': ops.append('new ' + lit_token('N', 'f', [on], ov)); b = '@1'
                        elif ok == 'list': b = lit_token('P', 'f', [on], ov)
                        elif ok == 'nd': b = lit_token('N', 'f', [on], ov)
                        else: b = lit_token('P', 'f', [1, on], ov)
                        ops += [f'{"ibin" if inplace else "bin"} {op} @0 {b}', 'toarray @0']
                        cases.append(Case(ops, {'kind': 'grid', 'cell': f'cancel/{"i" if inplace else ""}{op}/{ok}/{rel}'}))
            # row-wise through an array: rows of length `sn` against a vector / an array / a literal of width `on`
            for ok in ('SV', 'SA', 'SA1', 'vec', 'mat'):
                for inplace in (False, True):
                    if inplace and rel == 'self1': continue
                    for rep in range(2):
                        n = rng.choice([2, 3]); m = 2
                        sn, on = {'eq': (n, n), 'self1': (1, n), 'other1': (n, 1)}[rel]
                        rows = [nz(sn) for _ in range(m)]
                        if rel == 'other1':
                            c = rows[0][0]
                            for r in rows: r[rng.randrange(sn)] = c
                            orow = lambda r: [sign * c]
                        else:
                            orow = lambda r: [sign * r[i % sn] if (i == 0 or rng.random() < 0.6) else rng.choice([0.0, 1.5]) for i in range(on)]
                        ops = ['new ' + lit_token('P', 'f', [m, sn], [x for r in rows for x in r])]
                        nid = m + 1
                        if ok == 'SV': ops.append('new ' + lit_token('P', 'f', [on], orow(rows[0]))); b = f'@{nid}'
                        elif ok == 'SA': ops.append('new ' + lit_token('P', 'f', [m, on], [x for r in rows for x in orow(r)])); b = f'@{nid + m}'
                        elif ok == 'SA1': ops.append('new ' + lit_token('P', 'f', [1, on], orow(rows[1]))); b = f'@{nid + 1}'
                        elif ok == 'vec': b = lit_token('N', 'f', [on], orow(rows[1]))
                        else: b = lit_token('P', 'f', [m, on], [x for r in rows for x in orow(r)])
                        ops += [f'{"ibin" if inplace else "bin"} {op} @{m} {b}', f'toarray @{m}']
                        cases.append(Case(ops, {'kind': 'grid', 'cell': f'cancel/sa/{"i" if inplace else ""}{op}/{ok}/{rel}'}))
    return cases


class _Build:
    """op list with the bookkeeping of object ids (`new` of an m×n literal registers m rows, then the array)"""
    def __init__(self): self.ops, self.nid = [], 0

    def vec(self, ty, vals):
        self.ops.append('new ' + lit_token('P', ty, [len(vals)], vals)); self.nid += 1
        return self.nid - 1

    def mat(self, ty, m, n, vals):
        self.ops.append('new ' + lit_token('P', ty, [m, n], vals)); self.nid += m + 1
        return self.nid - 1


def grid_zero(rng):
    """all-zero operands: target kind × operand kind × operator × shape relation × which side holds no entry, the
    empty side produced in turn by every operation that can empty an object (built from zeros, exact cancellation,
    `*= 0`, `x -= x`, `clear()`, `x[:] = 0`).  Shape rules must not depend on the stored entries."""
    cases = []
    rels = {'eq': lambda n: (n, n), 'self1': lambda n: (1, n), 'other1': lambda n: (n, 1), 'mismatch': lambda n: (n, n + 1),
            'mismatch2': lambda n: (n + 1, n)}
    counter = [0]

    def nonzero(k, pow2, boolean=False):
        while True:
            v = gen_vals(rng, k, 1.0, pow2, 0.1 if pow2 else 0.3)
            if any(v): return [float(x != 0) for x in v] if boolean else v

    def make(B, kind, shape, zero, pow2):
        """one sparse object of the kind, all-zero if asked (by the next way of emptying, in rotation)"""
        m, n = shape
        k = n if m is None else m * n
        boolean = kind in ('SLV', 'SAb')
        ty = 'b' if boolean else 'f'
        new = (lambda vals: B.vec(ty, vals)) if m is None else (lambda vals: B.mat(ty, m, n, vals))
        if not zero: return new(nonzero(k, pow2, boolean))
        ways = {'SV': ['zeros', 'newsize', 'cancel', 'mul0', 'selfsub', 'clear', 'set0'],
                'SLV': ['zeros', 'and0', 'xorself', 'set0b', 'mul0b'],
                'SA': ['zeros', 'cancel', 'mul0', 'selfsub', 'clear', 'set0'],
                'SAb': ['zeros', 'and0', 'xorself', 'clear']}[kind]
        counter[0] += 1
        way = ways[counter[0] % len(ways)]
        if way == 'zeros': return new([0.0] * k)
        if way == 'newsize':
            B.ops.append(f'newsize {n}'); B.nid += 1; return B.nid - 1
        vals = nonzero(k, pow2, boolean)
        x = new(vals)
        if way == 'cancel': B.ops.append(f'ibin add @{x} ' + lit_token('P', 'f', [n] if m is None else [m, n], [-v for v in vals]))
        elif way == 'mul0': B.ops.append(f'ibin mul @{x} Pf:0')
        elif way == 'mul0b': B.ops.append(f'ibin mul @{x} Pb:0')
        elif way == 'selfsub': B.ops.append(f'ibin sub @{x} @{x}')
        elif way == 'clear': B.ops.append(f'clear @{x}')
        elif way == 'set0': B.ops.append(f'set @{x} s_:_:_ Pf:0')
        elif way == 'set0b': B.ops.append(f'set @{x} s_:_:_ Pb:0')
        elif way == 'and0': B.ops.append(f'ibin and @{x} Pb:0')
        elif way == 'xorself': B.ops.append(f'ibin xor @{x} @{x}')
        return x

    plans = [
        # target kind, operand kinds, binary operators, in-place operators
        ('SV', ['SV', 'SLV', 'SA', 'SA1', 'list', 'nd', 'mat'], ARITH + CMP + LOGIC, ARITH + LOGIC),
        ('SLV', ['SLV', 'SV', 'listb', 'list'], ('add', 'sub', 'mul', 'truediv', 'and', 'or', 'xor') + CMP,
         ('add', 'sub', 'mul', 'truediv', 'and', 'or', 'xor')),
        ('SA', ['SV', 'SLV', 'SA', 'SA1', 'SAb', 'list', 'mat'], ARITH + CMP + ('and',), ARITH + ('and',)),
        ('SAb', ['SLV', 'SAb', 'SA', 'listb'], ('add', 'mul', 'and', 'or', 'xor', 'eq'), ('add', 'mul', 'and', 'or', 'xor')),
    ]
    for tk, okinds, binops, iops in plans:
        for inplace in (False, True):
            for op in (iops if inplace else binops):
                for ok in okinds:
                    literal = ok in ('list', 'nd', 'mat', 'listb')
                    for rel in rels:
                        for zero in ('self', 'other', 'both'):
                            if literal and zero == 'both' and rel in ('self1', 'other1'): continue
                            n = rng.choice([2, 3, 4]); m = rng.choice([2, 3])
                            sn, on = rels[rel](n)
                            pow2 = op == 'truediv'
                            B = _Build()
                            t = make(B, tk, (m if tk in ('SA', 'SAb') else None, sn), zero in ('self', 'both'), False)
                            oz = zero in ('other', 'both')
                            if literal:
                                rows = {'list': None, 'nd': None, 'listb': None, 'mat': (m if tk in ('SA', 'SAb') else 2)}[ok]
                                k = on if rows is None else rows * on
                                vals = [0.0] * k if oz else nonzero(k, pow2, ok == 'listb')
                                b = lit_token('N' if ok == 'nd' else 'P', 'b' if ok == 'listb' else 'f',
                                              [on] if rows is None else [rows, on], vals)
                            else:
                                om = {'SV': None, 'SLV': None, 'SA1': 1}.get(ok, m if tk in ('SA', 'SAb') else 2)
                                b = f"@{make(B, 'SA' if ok == 'SA1' else ok, (om, on), oz, pow2)}"
                            B.ops.append(f'{"ibin" if inplace else "bin"} {op} @{t} {b}')
                            B.ops.append(f'toarray @{t}')
                            cases.append(Case(B.ops, {'kind': 'grid', 'cell': f'zero/{tk}/{"i" if inplace else ""}{op}/{ok}/{rel}/{zero}'}))
    return cases


def grid_logical(rng):
    """SparseLogicalVector: operator × operand kind × shape relation, binary and in place; methods"""
    cases = []
    rels = ['eq', 'self1', 'other1', 'mismatch']
    okinds = ['Pb', 'Pf', 'listb', 'ndb', 'listf', 'SLV', 'SV', 'wrapb']
    bools = lambda k: [float(rng.random() < 0.5) for _ in range(k)]
    for inplace in (False, True):
        ops = ('add', 'sub', 'mul', 'truediv', 'and', 'or', 'xor') + (() if inplace else CMP)
        for op in ops:
            for ok in okinds:
                for rel in (['eq'] if ok in ('Pb', 'Pf') else rels):
                    n = rng.choice([2, 3, 4])
                    sn, on = {'eq': (n, n), 'self1': (1, n), 'other1': (n, 1), 'mismatch': (n, n + 1)}[rel]
                    ops_ = ['new ' + lit_token('P', 'b', [sn], bools(sn))]
                    pow2 = op == 'truediv'
                    if ok == 'Pb': b = lit_token('P', 'b', [], [float(rng.random() < 0.6)])
                    elif ok == 'Pf': b = lit_token('P', 'f', [], [gen_value(rng, 1.0, pow2, 0.15)])
                    elif ok == 'listb': b = lit_token('P', 'b', [on], bools(on))
                    elif ok == 'ndb': b = lit_token('N', 'b', [on], bools(on))
                    elif ok == 'wrapb': b = lit_token('P', 'b', [1, on], bools(on))
                    elif ok == 'listf': b = lit_token('P', 'f', [on], gen_vals(rng, on, 1.0, pow2, 0.1 if pow2 else 0.3))
                    elif ok == 'SLV': ops_.append('new ' + lit_token('N', 'b', [on], bools(on))); b = '@1'
                    elif ok == 'SV': ops_.append('new ' + lit_token('P', 'f', [on], gen_vals(rng, on, 1.0, pow2, 0.1 if pow2 else 0.3))); b = '@1'
                    ops_.append(f'{"ibin" if inplace else "bin"} {op} @0 {b}')
                    ops_.append('toarray @0')
                    cases.append(Case(ops_, {'kind': 'grid', 'cell': f'slv/{"i" if inplace else ""}{op}/{ok}/{rel}'}))
    for vals in ([0.0, 0.0, 0.0], [1.0, 1.0], [1.0, 0.0, 1.0, 0.0], [1.0], [0.0]):
        ops_ = ['new ' + lit_token('N', 'b', [len(vals)], vals)]
        for r in ('sum', 'any', 'all', 'max', 'min', 'mean'):
            for ax in ('_', '0', '1'):
                for kd in (0, 1):
                    if r == 'mean' and len(vals) not in (1, 2, 4): continue
                    ops_.append(f'red {r} @0 {ax} {kd}')
        ops_ += ['inv @0', 'neg @0', 'abs @0', 'copy @0', 'copyctor @0', 'hasneg @0', 'nzkeys @0', 'nzitems @0', 'poskeys @0',
                 'remneg @0', 'sumof @0 0', 'toarray @0', 'rbin add Pb:1 @0', 'rbin sub Pf:2 @0', 'rbin mul Pb:0 @0',
                 'rbin truediv Pb:1 @0', 'rbin truediv Pf:2 @0']
        cases.append(Case(ops_, {'kind': 'grid', 'cell': 'slv/methods'}))
    for ik in ('i', 's', 'sopen', 'f', 'M'):
        for vk in ('get', 'Pb1', 'Pb0', 'Pf', 'listb', 'ndb', 'SLV', 'SV', 'self'):
            n = rng.choice([3, 4])
            if ik == 'i': idx, c = f'i{rng.randrange(n)}', 1
            elif ik == 's': a0 = rng.randrange(n); idx, c = f's{a0}:_:_', n - a0
            elif ik == 'sopen': idx, c = 's_:_:_', n
            elif ik == 'f': l = rng.sample(range(n), rng.randrange(1, n + 1)); idx, c = 'f' + ','.join(map(str, l)), len(l)
            else:
                m = [rng.random() < 0.6 for _ in range(n)]; idx, c = 'M' + ','.join(str(int(x)) for x in m), sum(m)
            ops_ = ['new ' + lit_token('P', 'b', [n], bools(n))]
            if vk == 'get': ops_.append(f'get @0 {idx}')
            else:
                if c == 0 and vk in ('listb', 'ndb', 'SLV', 'SV'): continue
                if vk == 'self' and ik != 'sopen': continue
                if ik == 'i' and vk in ('listb', 'ndb', 'SLV', 'SV') and c != 1: continue
                if vk == 'Pb1': v = 'Pb:1'
                elif vk == 'Pb0': v = 'Pb:0'
                elif vk == 'Pf': v = 'Pf:-2'
                elif vk == 'listb': v = lit_token('P', 'b', [c], bools(c))
                elif vk == 'ndb': v = lit_token('N', 'b', [c], bools(c))
                elif vk == 'SLV': ops_.append('new ' + lit_token('P', 'b', [c], bools(c))); v = '@1'
                elif vk == 'SV': ops_.append('new ' + lit_token('P', 'f', [c], gen_vals(rng, c, 1.0))); v = '@1'
                elif vk == 'self': v = '@0'
                if ik == 'i' and vk in ('listb', 'ndb', 'SLV', 'SV'): continue
                ops_.append(f'set @0 {idx} {v}')
            ops_.append('toarray @0')
            cases.append(Case(ops_, {'kind': 'grid', 'cell': f'slv/idx/{ik}/{vk}'}))
    return cases


def grid_array(rng):
    """SparseArray (float and boolean): operator × operand kind × shape relation; reductions; indexing"""
    cases = []
    okinds = ['Pf', 'Pb', 'vec', 'ndvec', 'vec1', 'vecX', 'mat', 'ndmat', 'mat1', 'matX', 'col', 'SV', 'SV1', 'SLV', 'SA', 'SA1', 'SAX',
              'SAb', 'self']
    for boolean in (False, True):
        for inplace in (False, True):
            if boolean: ops = ('add', 'sub', 'mul', 'truediv', 'and', 'or', 'xor') + (() if inplace else ('eq', 'gt'))
            else: ops = ARITH + ((('and',)) if inplace else CMP + ('and',))
            for op in ops:
                for ok in okinds:
                    m, n = rng.choice([2, 3]), rng.choice([2, 3, 4])
                    pow2 = op == 'truediv'
                    def vals(k, b=boolean):
                        v = gen_vals(rng, k, 1.0, pow2, 0.1 if pow2 else 0.35)
                        return [float(x != 0) for x in v] if b else v
                    ty = 'b' if boolean else 'f'
                    ops_ = ['new ' + lit_token('P', ty, [m, n], [float(x != 0) for x in gen_vals(rng, m * n, 1.0)] if boolean
                                               else gen_vals(rng, m * n, 1.0, False, 0.35))]
                    nid = m + 1
                    if ok == 'Pf': b = lit_token('P', 'f', [], [gen_value(rng, 1.0, pow2, 0.1)])
                    elif ok == 'Pb': b = lit_token('P', 'b', [], [float(rng.random() < 0.6)])
                    elif ok == 'vec': b = lit_token('P', ty, [n], vals(n))
                    elif ok == 'ndvec': b = lit_token('N', ty, [n], vals(n))
                    elif ok == 'vec1': b = lit_token('P', ty, [1], vals(1))
                    elif ok == 'vecX': b = lit_token('P', ty, [n + 1], vals(n + 1))
                    elif ok == 'mat': b = lit_token('P', ty, [m, n], vals(m * n))
                    elif ok == 'ndmat': b = lit_token('N', ty, [m, n], vals(m * n))
                    elif ok == 'mat1': b = lit_token('N', ty, [1, n], vals(n))
                    elif ok == 'matX': b = lit_token('N', ty, [m + 1, n], vals((m + 1) * n))
                    elif ok == 'col': b = lit_token('N', ty, [m, 1], vals(m))
                    elif ok == 'SV': ops_.append('new ' + lit_token('P', 'f', [n], vals(n, False))); b = f'@{nid}'
                    elif ok == 'SV1': ops_.append('new ' + lit_token('P', 'f', [1], vals(1, False))); b = f'@{nid}'
                    elif ok == 'SLV': ops_.append('new ' + lit_token('P', 'b', [n], vals(n, True))); b = f'@{nid}'
                    elif ok == 'SA': ops_.append('new ' + lit_token('P', ty, [m, n], vals(m * n))); b = f'@{nid + m}'
                    elif ok == 'SA1': ops_.append('new ' + lit_token('P', ty, [1, n], vals(n))); b = f'@{nid + 1}'
                    elif ok == 'SAX': ops_.append('new ' + lit_token('P', ty, [m + 1, n], vals((m + 1) * n))); b = f'@{nid + m + 1}'
                    elif ok == 'SAb':
                        ops_.append('new ' + lit_token('P', 'f' if boolean else 'b', [m, n], vals(m * n, not boolean))); b = f'@{nid + m}'
                    elif ok == 'self': b = f'@{m}'
                    ops_.append(f'{"ibin" if inplace else "bin"} {op} @{m} {b}')
                    ops_.append(f'toarray @{m}')
                    cases.append(Case(ops_, {'kind': 'grid', 'cell': f'sa{"b" if boolean else ""}/{"i" if inplace else ""}{op}/{ok}'}))
    # a one-row selection of the target as the in-place operand: every operator × every row k × selection form × array height
    for boolean in (False, True):
        iops = ('add', 'sub', 'mul', 'truediv', 'and', 'or', 'xor') if boolean else ARITH + ('and',)
        for op in iops:
            for m in (2, 3):
                for k in range(m):
                    for sel in (f's{k}:{k + 1}:_', f'f{k}', 'M' + ','.join('1' if i == k else '0' for i in range(m))):
                        n = rng.choice([2, 3])
                        pow2 = op == 'truediv'
                        v = gen_vals(rng, m * n, 1.0, pow2, 0.0 if pow2 else 0.3)
                        if not any(v[k * n:(k + 1) * n]): v[k * n] = 2.0          # the shared row is not all-zero
                        if boolean: v = [float(x != 0) for x in v]
                        ops_ = ['new ' + lit_token('P', 'b' if boolean else 'f', [m, n], v), f'get @{m} {sel}',
                                f'ibin {op} @{m} @{m + 1}', f'toarray @{m}', f'toarray @{m + 1}']
                        cases.append(Case(ops_, {'kind': 'grid', 'cell': f'sa{"b" if boolean else ""}/i{op}/own-row-view/m{m}k{k}/{sel[0]}'}))
    # a vector against an array
    for op in ARITH + ('eq', 'lt'):
        for inplace in (False, True):
            if inplace and op in CMP: continue
            for ok in ('SA', 'SA1', 'SAb'):
                n = rng.choice([2, 3]); pow2 = op == 'truediv'
                ops_ = ['new ' + lit_token('P', 'f', [n], gen_vals(rng, n, 1.0)),
                        'new ' + lit_token('P', 'b' if ok == 'SAb' else 'f', [1 if ok == 'SA1' else 2, n],
                                           [float(x != 0) for x in gen_vals(rng, 2 * n, 1.0)][: n if ok == 'SA1' else 2 * n] if ok == 'SAb'
                                           else gen_vals(rng, n if ok == 'SA1' else 2 * n, 1.0, pow2, 0.05 if pow2 else 0.3))]
                sa = 2 if ok == 'SA1' else 3
                ops_.append(f'{"ibin" if inplace else "bin"} {op} @0 @{sa}')
                cases.append(Case(ops_, {'kind': 'grid', 'cell': f'sv-vs-sa/{"i" if inplace else ""}{op}/{ok}'}))
    # reductions
    for boolean in (False, True):
        for shape, vals in (((2, 2), [0.0] * 4), ((2, 4), None), ((1, 2), None), ((2, 1), [-1.0, 0.0]), ((2, 2), [-1.0, -2.0, -0.5, -4.0]),
                            ((4, 2), None)):
            m, n = shape
            v = vals or gen_vals(rng, m * n, 1.0, False, 0.4)
            if boolean: v = [float(x != 0) for x in v]
            ops_ = ['new ' + lit_token('N', 'b' if boolean else 'f', [m, n], v)]
            for r in ('sum', 'any', 'all', 'max', 'min', 'mean'):
                for ax in ('_', '0', '1', '2'):
                    for kd in (0, 1):
                        ops_.append(f'red {r} @{m} {ax} {kd}')
            ops_ += [f'neg @{m}', f'abs @{m}', f'copy @{m}', f'hasneg @{m}', f'nzkeys @{m}', f'negkeys @{m}', f'toarray @{m}'] \
                + ([f'inv @{m}'] if boolean else [f'remneg @{m}', f'toarray @{m}', f'rbin sub Pf:1 @{m}', f'rbin truediv Pf:0 @{m}']) \
                + [f'clear @{m}', f'toarray @{m}']
            cases.append(Case(ops_, {'kind': 'grid', 'cell': f'sa{"b" if boolean else ""}/reductions'}))
    # indexing: every supported index form, get and set with every value shape NumPy can broadcast
    g = Gen(rng)
    for boolean in (False, True):
        forms = ['i1', 's_:_:_', 's0:2:_', 'f1,0', 'F0,2', 'm1,0,1', 'M0,1,1',
                 'i1|i0', 'i0|s_:_:_', 'i2|s1:3:_', 'i1|f0,2', 'i1|M1,0,1,0',
                 's_:_:_|i1', 's_:_:_|s_:_:_', 's_:_:_|s0:2:_', 's_:_:_|f1,3', 's_:_:_|F1,3', 's_:_:_|m1,0,0,1',
                 's1:3:_|i0', 's0:2:_|s1:3:_', 's0:2:_|f0,1',
                 'f0,2|i1', 'f2,0|s_:_:_', 'f0,1|s1:3:_', 'f0,1,2|f3,2,1', 'm1,0,1|s_:_:_', 'M0,1,1|s0:2:_']
        sel = {'i1': (None, 4), 's_:_:_': (3, 4), 's0:2:_': (2, 4), 'f1,0': (2, 4), 'F0,2': (2, 4), 'm1,0,1': (2, 4), 'M0,1,1': (2, 4),
               'i1|i0': (None, None), 'i0|s_:_:_': (None, 4), 'i2|s1:3:_': (None, 2), 'i1|f0,2': (None, 2), 'i1|M1,0,1,0': (None, 2),
               's_:_:_|i1': (3, None), 's_:_:_|s_:_:_': (3, 4), 's_:_:_|s0:2:_': (3, 2), 's_:_:_|f1,3': (3, 2), 's_:_:_|F1,3': (3, 2),
               's_:_:_|m1,0,0,1': (3, 2), 's1:3:_|i0': (2, None), 's0:2:_|s1:3:_': (2, 2), 's0:2:_|f0,1': (2, 2),
               'f0,2|i1': (None, 2), 'f2,0|s_:_:_': (2, 4), 'f0,1|s1:3:_': (2, 2), 'f0,1,2|f3,2,1': (None, 3), 'm1,0,1|s_:_:_': (2, 4),
               'M0,1,1|s0:2:_': (2, 2)}
        ty = 'b' if boolean else 'f'
        def vals(k):
            v = gen_vals(rng, k, 1.0, False, 0.3)
            return [float(x != 0) for x in v] if boolean else v
        for form in forms:
            h, w = sel[form]
            base = 'new ' + lit_token('P', ty, [3, 4], vals(12))
            cases.append(Case([base, f'get @3 {form}'], {'kind': 'grid', 'cell': f'sa{ty}/get/{form}'}))
            vkinds = ['s', 's0']
            if h is None and w is None: pass
            elif h is None or w is None: vkinds += ['v', 'ndv', 'SV', 'wrap']
            else: vkinds += ['row', 'ndrow', 'SVrow', 'mat', 'ndmat', 'mat1']
            for vk in vkinds:
                ops_ = [base]
                k = w if h is None else h
                if vk == 's': v = lit_token('P', ty, [], vals(1) if boolean else [gen_value(rng, 1.0, False, 0.0)])
                elif vk == 's0': v = lit_token('P', ty, [], [0.0])
                elif vk == 'v': v = lit_token('P', ty, [k], vals(k))
                elif vk == 'ndv': v = lit_token('N', ty, [k], vals(k))
                elif vk == 'wrap': v = lit_token('P', ty, [1, k], vals(k))
                elif vk == 'SV': ops_.append('new ' + lit_token('P', 'f', [k], gen_vals(rng, k, 1.0))); v = '@4'
                elif vk == 'row': v = lit_token('P', ty, [w], vals(w))
                elif vk == 'ndrow': v = lit_token('N', ty, [w], vals(w))
                elif vk == 'SVrow': ops_.append('new ' + lit_token('P', 'f', [w], gen_vals(rng, w, 1.0))); v = '@4'
                elif vk == 'mat': v = lit_token('P', ty, [h, w], vals(h * w))
                elif vk == 'ndmat': v = lit_token('N', ty, [h, w], vals(h * w))
                elif vk == 'mat1': v = lit_token('N', ty, [1, w], vals(w))
                ops_ += [f'set @3 {form} {v}', 'toarray @3']
                cases.append(Case(ops_, {'kind': 'grid', 'cell': f'sa{ty}/set/{form}/{vk}'}))
    # read-only arrays
    for mut in ('ibin add @2 Pf:1', 'ibin mul @2 @2', 'set @2 i0 Pf:1', 'set @2 s_:_:_|i1 Pf:0', 'set @2 f0,1|f1,0 Pf:7', 'clear @2', 'remneg @2'):
        cases.append(Case(['new Pf2x2:1,0,-2,3', 'setflags @2', mut, 'toarray @2'], {'kind': 'grid', 'cell': 'sa/readonly'}))
    # mixed read-only states: one row (not the first) frozen through its handle, writes through the array / a view
    for mut in ('ibin mul @3 Pf:2', 'ibin add @3 Pf3:1,1,1', 'ibin sub @3 @0', 'ibin truediv @3 Pf:2', 'ibin add @3 @3',
                'ibin mul @3 Pf3x3:1,2,1,2,1,2,1,2,1', 'set @3 s_:_:_|i1 Pf:9', 'set @3 s_:_:_ Pf:0', 'set @3 f1,2 Pf3:7,7,7',
                'set @3 m1,1,0 Pf:1', 'set @3 f0,1|f0,0 Pf:8', 'set @3 i1|i2 Pf:0', 'set @3 i0|i0 Pf:5', 'set @3 i2 Pf:1',
                'set @3 s0:1:_|s_:_:_ Pf:4', 'clear @3', 'remneg @3'):
        for frozen in (1, 2):
            cases.append(Case(['new Pf3x3:1,-2,0,0,3,4,5,0,-6', f'setflags @{frozen}', mut, 'toarray @3', f'setro @{frozen} 0', mut, 'toarray @3'],
                              {'kind': 'grid', 'cell': 'sa/readonly-mixed'}))
    for mut in ('ibin add @4 Pf:1', 'ibin mul @4 @4', 'set @4 s_:_:_|i0 Pf:3', 'set @4 i0 Pf:1', 'clear @4', 'remneg @4', 'set @4 f0,1|f1,1 Pf:2'):
        cases.append(Case(['new Pf3x3:1,0,2,0,3,0,4,4,0', 'setflags @0', 'get @3 f2,0', mut, 'toarray @3'],
                          {'kind': 'grid', 'cell': 'sa/readonly-view'}))
    # rows shared between an array and its handles
    cases.append(Case(['new Pf2x3:1,0,2,0,3,0', 'get @2 i0', 'ibin add @0 Pf:1', 'toarray @2', 'get @2 f1,0', 'ibin mul @3 Pf:2', 'toarray @2',
                       'ibin sub @2 @0', 'toarray @2', 'ibin add @2 @2', 'toarray @2', 'newsa @0,@1', 'ibin sub @4 @4', 'toarray @2'],
                      {'kind': 'grid', 'cell': 'sa/sharing'}))
    return cases


def exhaustive_cases(a=3.0):
    """all pairs of vectors of size ≤ 3 over {0, a, −a, 1/2} under every operator, binary and in place"""
    alpha = [0.0, a, -a, 0.5]
    vecs = [list(v) for n in (1, 2, 3) for v in itertools.product(alpha, repeat=n)]
    for i, u in enumerate(vecs):
        ops = ['new ' + lit_token('P', 'f', [len(u)], u)]
        yield i, u, ops


FLOATS = [1e-200, -1e-200, 1e-300, 5e-324, 2.2250738585072014e-308, 1e-160, 1e200, -1e200, 1e308, -1e308, 1.7976931348623157e308,
          0.1, 0.3, 1.0 / 3.0, -0.7, 1.0, 2.0, 3.0, 1e16, 1.0 + 2.0 ** -52]


def py_stream_cases(rng):
    """cases judged by the oracle on the real objects only (no Lean counterpart):
    float/…  binary64 values of extreme and inexact magnitude (underflow, overflow, rounding) under the element-wise operators,
             compared bit for bit with NumPy; a stored zero or a lost entry is an invariant failure;
    neg/…    negative positions (slice bounds wrap since 8812333 and are judged by slicegrid/…); empty/… empty selections; dup/… the same row twice in a selection;
    maskcol/… boolean masks next to a column index; slice/… negative steps and bounds beyond the size;
    form/…   the index forms repaired by a011765 (regression cases)"""
    cases = []
    def add(cell, ops): cases.append(Case(ops, {'kind': 'py', 'stream': 'py', 'cell': cell}))
    def fvals(k, zero_p=0.25, nozero=False):
        return [0.0 if (not nozero and rng.random() < zero_p) else rng.choice(FLOATS) for _ in range(k)]
    # ---- float stream
    for op in ARITH:
        for ok in ('Pf', 'Nf', 'list', 'nd', 'SV', 'SA', 'mat'):
            for inplace in (False, True):
                for target in ('SV', 'SA'):
                    for rep in range(3):
                        n = rng.choice([2, 3, 4]); m = 2
                        B = _Build()
                        t = B.vec('f', fvals(n)) if target == 'SV' else B.mat('f', m, n, fvals(m * n))
                        nz = op == 'truediv'
                        if ok in ('Pf', 'Nf'): b = lit_token(ok[0], 'f', [], fvals(1, nozero=True))
                        elif ok == 'list': b = lit_token('P', 'f', [n], fvals(n, nozero=nz))
                        elif ok == 'nd': b = lit_token('N', 'f', [n], fvals(n, nozero=nz))
                        elif ok == 'mat': b = lit_token('P', 'f', [m, n], fvals(m * n, nozero=nz))
                        elif ok == 'SV': b = f"@{B.vec('f', fvals(n, nozero=nz))}"
                        else: b = f"@{B.mat('f', m, n, fvals(m * n, nozero=nz))}"
                        if inplace and target == 'SV' and ok in ('SA', 'mat'): continue
                        B.ops += [f'{"ibin" if inplace else "bin"} {op} @{t} {b}', f'toarray @{t}']
                        add(f'float/{target}/{"i" if inplace else ""}{op}/{ok}', B.ops)
    for op in ARITH + CMP:
        for rep in range(3):
            n = rng.choice([2, 3])
            add(f'float/r{op}', ['new ' + lit_token('P', 'f', [n], fvals(n, nozero=(op == 'truediv'))),
                                 f'rbin {op} {lit_token("P", "f", [], fvals(1, nozero=True))} @0'])
            add(f'float/{op}/cmp-or-chain', ['new ' + lit_token('P', 'f', [n], fvals(n)), 'new ' + lit_token('N', 'f', [n], fvals(n, nozero=(op == 'truediv'))),
                                             f'bin {op} @0 @1', 'neg @0', 'abs @1', 'red max @0 _ 0', 'red min @1 _ 0', 'copy @0', 'toarray @1'])
    # comparisons of values one unit in the last place apart (and equal ones), every operator, every operand kind
    for op in CMP:
        for x in (1.0, 0.1, 1e-200, 1e200, -3.0, 5e-324):
            y = math.nextafter(x, math.inf)
            va = [x, y, 0.0, -x]; vb = [y, x, 0.0, -y]
            L = lambda k, v: lit_token(k, 'f', [len(v)], v)
            add(f'float/cmp/{op}/scalar', ['new ' + L('P', va), f'bin {op} @0 {lit_token("P", "f", [], [x])}', f'bin {op} @0 {lit_token("N", "f", [], [y])}',
                                           f'rbin {op} {lit_token("P", "f", [], [y])} @0'])
            add(f'float/cmp/{op}/sparse', ['new ' + L('P', va), 'new ' + L('N', vb), f'bin {op} @0 @1', f'bin {op} @1 @0', f'bin {op} @0 @0'])
            add(f'float/cmp/{op}/array', ['new ' + L('P', va), f'bin {op} @0 {L("P", vb)}', f'bin {op} @0 {L("N", vb)}'])
            add(f'float/cmp/{op}/SA', ['new ' + lit_token('P', 'f', [2, 4], va + vb), f'bin {op} @2 {lit_token("P", "f", [], [x])}', f'bin {op} @2 {L("P", vb)}',
                                       'new ' + lit_token('N', 'f', [2, 4], vb + va), f'bin {op} @2 @5'])
    # reductions and indexing on extreme values
    for rep in range(10):
        n = rng.choice([3, 4]); v = fvals(n)
        ops = ['new ' + lit_token('P', 'f', [n], v)]
        for r in ('any', 'all', 'max', 'min'):
            for kd in (0, 1): ops.append(f'red {r} @0 _ {kd}')
        ops += [f'get @0 f{",".join(str(rng.randrange(n)) for _ in range(2))}', f'get @0 s1:{n}:_', f'get @0 m{",".join(str(int(rng.random() < 0.5)) for _ in range(n))}',
                f'set @0 f0,{n - 1} {lit_token("P", "f", [2], fvals(2))}', 'toarray @0', 'copy @0', 'neg @0', 'abs @0']
        add('float/red-index', ops)
        m = 2; w = fvals(m * n)
        ops = ['new ' + lit_token('N', 'f', [m, n], w)]
        for r in ('any', 'all', 'max', 'min'):
            for ax in ('_', '0', '1'): ops.append(f'red {r} @{m} {ax} 0')
        ops += [f'get @{m} i1|i{rng.randrange(n)}', f'get @{m} s_:_:_|i0', f'set @{m} i0|i{rng.randrange(n)} {lit_token("P", "f", [], fvals(1))}', f'toarray @{m}']
        add('float/red-index/SA', ops)
    for rep in range(12):
        n = rng.choice([3, 4]); v = fvals(n)
        add('float/getset', ['new ' + lit_token('P', 'f', [n], v), f'get @0 i{rng.randrange(n)}', f'set @0 i{rng.randrange(n)} {lit_token("P", "f", [], fvals(1))}',
                             f'set @0 s_:_:_ {lit_token("N", "f", [n], fvals(n))}', 'toarray @0', 'mixfrom @0 @0', 'toarray @0'])
    # ---- negative positions
    for tk, new in (('SV', 'new Pf4:1,0,2,3'), ('SLV', 'new Pb4:1,0,1,1'), ('SA', 'new Pf3x4:1,0,2,3,0,0,5,6,7,8,0,9'), ('SAb', 'new Pb3x4:1,0,1,1,0,0,1,0,1,1,0,1')):
        t = 0 if tk in ('SV', 'SLV') else 3
        val = 'Pb:1' if tk in ('SLV', 'SAb') else 'Pf:7'
        forms = ['i-1', 'i-4', 's-2:_:_', 's_:-1:_', 's-3:-1:_', 'f0,-1', 'F-1,-2']
        if t: forms = ['i-1', 's-2:_:_', 'f0,-1', 'i0|i-1', 'i-1|i0', 's_:_:_|i-1', 'i1|s-2:_:_', 's_:_:_|f0,-1', 'f0,-1|i1', 'f0,1|f-1,-2']
        for form in forms:
            add(f'neg/{tk}/get/{form}', [new, f'get @{t} {form}'])
            add(f'neg/{tk}/set/{form}', [new, f'set @{t} {form} {val}', f'toarray @{t}'])
    # ---- empty selections
    for new, t in (('new Pf3x4:1,0,2,3,0,0,5,6,7,8,0,9', 3), ('new Pb3x4:1,0,1,1,0,0,1,0,1,1,0,1', 3)):
        for form in ('m0,0,0', 'M0,0,0', 's1:1:_', 's3:_:_', 'm0,0,0|s_:_:_', 's1:1:_|s_:_:_', 's_:_:_|s2:2:_'):
            add(f'empty/get/{form}', [new, f'get @{t} {form}'])
            add(f'empty/set/{form}', [new, f'set @{t} {form} {"Pb:1" if "Pb" in new else "Pf:5"}', f'toarray @{t}'])
    for form in ('s1:1:_', 'm0,0,0', 'M0,0,0', 's3:_:_'):
        add(f'empty/SV/{form}', ['new Pf3:1,0,2', f'get @0 {form}', f'set @0 {form} Pf:5', 'toarray @0'])
    # ---- a boolean mask next to a column index (`sa[mask, j]`, `sa[mask, [j, k]]`, `sa[[i, k], colmask]`, `sa[mask, colmask]`)
    for tk, new, val in (('SA', 'new Pf3x4:1,0,2,3,0,0,5,6,7,8,0,9', 'Pf:42'), ('SAb', 'new Pb3x4:1,0,1,1,0,0,1,0,1,1,0,1', 'Pb:1')):
        for form, cnt in (('M1,0,1|i1', 2), ('m1,0,1|i1', 2), ('M0,1,1|i3', 2), ('M1,0,1|f0,3', 2), ('M1,0,1|F0,3', 2), ('f0,2|M1,0,0,1', 2),
                          ('M1,0,1|M1,0,0,1', 2), ('m0,1,1|m0,1,1,0', 2), ('i1|M1,0,0,1', 2), ('M1,1,1|i0', 3)):
            add(f'maskcol/{tk}/get/{form}', [new, f'get @3 {form}'])
            add(f'maskcol/{tk}/set/{form}', [new, f'set @3 {form} {val}', 'toarray @3'])
            vals = [float(rng.random() < 0.5) for _ in range(cnt)] if tk == 'SAb' else gen_vals(rng, cnt, 1.0)
            add(f'maskcol/{tk}/setv/{form}', [new, f'set @3 {form} {lit_token("P", "b" if tk == "SAb" else "f", [cnt], vals)}', 'toarray @3'])
    # ---- slices with a negative step or bounds beyond the size (NumPy reverses / clips)
    for tk, new, t, val in (('SV', 'new Pf4:1,0,2,3', 0, 'Pf:7'), ('SLV', 'new Pb4:1,0,1,1', 0, 'Pb:0'),
                            ('SA', 'new Pf3x4:1,0,2,3,0,0,5,6,7,8,0,9', 3, 'Pf:7')):
        forms = ['s_:_:-1', 's3:0:-1', 's_:_:-2', 's1:10:_', 's0:9:2', 's5:_:_', 's2:1:_', 's_:_:2', 's1:4:2']
        if t: forms += ['s_:_:_|s1:9:_', 's_:_:_|s_:_:-1', 'i0|s_:_:-1', 's0:5:_|i1', 's_:_:2|s_:_:_', 's_:_:_|s0:4:2', 's_:_:-1|s_:_:_', 'f0,2|s2:8:_']
        for form in forms:
            add(f'slice/{tk}/get/{form}', [new, f'get @{t} {form}'])
            add(f'slice/{tk}/set/{form}', [new, f'set @{t} {form} {val}', f'toarray @{t}'])
    # ---- every slice shape: start / stop from {none, below -size, -size, inside (negative and positive), size, beyond size} ×
    # step from {none, 1, 2, -1, -2}; all combinations on a vector, each combination once on a logical vector, the rows or
    # the columns of an array (get, and set with a scalar)
    def bounds(n): return [None, -(n + 2), -(n + 1), -n, -1, 0, 1, n, n + 2]
    tok = lambda x: '_' if x is None else str(x)
    n = 3
    targets = (('SV', 'new Pf3:1,0,2', 0, 'Pf:7', '{}'), ('SLV', 'new Pb3:1,0,1', 0, 'Pb:1', '{}'),
               ('SArows', 'new Pf3x3:1,0,2,0,3,0,4,5,0', 3, 'Pf:7', '{}'), ('SAcols', 'new Pf2x3:1,0,2,0,3,4', 2, 'Pf:7', 's_:_:_|{}'),
               ('SAelem', 'new Pf2x3:1,0,2,0,3,4', 2, 'Pf:7', 'i1|{}'))
    for a0 in bounds(n):
        for b0 in bounds(n):
            for st in (None, 1, 2, -1, -2):
                sl = f's{tok(a0)}:{tok(b0)}:{tok(st)}'
                if sl == 's_:_:_': continue
                for tk, new, t, val, wrap in (targets[0], targets[1 + rng.randrange(4)]):
                    form = wrap.format(sl)
                    # (an empty ROW selection of an array is the listed class `empty-selection-loses-shape`, exercised by the
                    #  `empty/*` cells; here it would only inflate that class)
                    if not (tk == 'SArows' and len(range(*slice(a0, b0, st).indices(n))) == 0):
                        add(f'slicegrid/{tk}/get', [new, f'get @{t} {form}'])
                    add(f'slicegrid/{tk}/set', [new, f'set @{t} {form} {val}', f'toarray @{t}'])
    # ---- the same row twice in a selection
    for op in ('add', 'mul', 'sub'):
        add(f'dup/i{op}', ['new Pf2x2:1,2,3,4', 'get @2 f0,0', f'ibin {op} @3 Pf:2', 'toarray @2'])
        add(f'dup/i{op}/F', ['new Pf3x2:1,2,3,4,5,6', 'get @3 F2,0,2', f'ibin {op} @4 Pf2:2,4', 'toarray @3'])
    add('dup/get', ['new Pf2x2:1,2,3,4', 'get @2 f0,0', 'toarray @3'])
    # ---- index forms repaired by a011765 (`sa[a:b, :] = 2-d`, `sa_bool[[rows], col] = value`): regression cases
    for form, v in (('s0:2:_|s_:_:_', 'Pf2x4:1,2,3,4,5,6,7,8'), ('s1:3:_|s_:_:_', 'Nf2x4:1,0,3,0,5,0,7,0'), ('s0:1:_|s_:_:_', 'Pf1x4:1,2,3,4'),
                    ('s0:2:_|s_:_:_', 'Pf4:1,2,3,4'), ('s0:2:_|s_:_:_', 'Pf:3')):
        add(f'form/rowslice-allcols/{v.split(":")[0]}', ['new Pf3x4:1,0,2,3,0,0,5,6,7,8,0,9', f'set @3 {form} {v}', 'toarray @3'])
    for form, v in (('f0,2|i1', 'Pb:1'), ('F0,2|i1', 'Pb:0'), ('f0,2|i1', 'Pb2:1,0'), ('f0,1,2|f3,2,1', 'Pb:1')):
        add(f'form/bool-rowlist-intcol/{form}/{v}', ['new Pb3x4:1,0,1,1,0,0,1,0,1,1,0,1', f'set @3 {form} {v}', 'toarray @3'])
    return cases


def run_seed():
    """the seed of this run: the same number in every worker (the `rng` handed to `generate` differs per worker, so
    nothing that must be the same for all workers may be drawn from it)"""
    import os, sys
    argv = sys.argv
    for i, a in enumerate(argv):
        if a == '--seed' and i + 1 < len(argv):
            try: return int(argv[i + 1])
            except ValueError: pass
        if a.startswith('--seed='):
            try: return int(a[7:])
            except ValueError: pass
    try: return int(os.environ.get('VERIF_SEED', '20260927'))
    except ValueError: return 20260927


def full_grid(seed):
    """the whole grid of one run: one list, the same in every worker and for every number of workers"""
    cases = grid_cases(random.Random(f'C09/grid/{seed}'))
    for j, c in enumerate(cases): c.meta['j'] = j
    return cases


def generate(rng, tier, index, nworkers):
    """case j of the run goes to worker j mod nworkers; which cases exist depends on (tier, seed) only, never on the
    worker index, the number of workers or the machine"""
    b = budget(tier)
    seed = run_seed()
    for j, c in enumerate(full_grid(seed)):
        if j % nworkers == index: yield c
    for j, c in enumerate(py_stream_cases(random.Random(f'C09/py/{seed}'))):
        if j % nworkers == index: yield c
    if tier == 'thorough':
        alpha = [0.0, 3.0, -3.0, 0.5]
        vecs = [list(v) for n in (1, 2, 3) for v in itertools.product(alpha, repeat=n)]
        pairs = [(u, v) for u in vecs for v in vecs]
        for j, (u, v) in enumerate(pairs):
            if j % nworkers != index: continue
            ops = ['new ' + lit_token('P', 'f', [len(u)], u), 'new ' + lit_token('N', 'f', [len(v)], v)]
            ops += ['copy @0'] * 6                       # @2 … @7: targets of the in-place operators
            k = 2
            for op in ('add', 'sub', 'mul'):
                ops.append(f'ibin {op} @{k} @1'); k += 1
                ops.append(f'ibin {op} @{k} {lit_token("N", "f", [len(v)], v)}'); k += 1
            for op in ARITH + CMP:
                if op == 'truediv': continue
                ops.append(f'bin {op} @0 @1')
                ops.append(f'bin {op} @0 {lit_token("P", "f", [len(v)], v)}')
            out = ops
            yield Case(out, {'kind': 'exhaustive'})
        # division over {0, 2, -2, 1/2} (exact), sizes ≤ 3: every zero-divisor / broadcasting branch
        dalpha = [0.0, 2.0, -2.0, 0.5]
        dvecs = [list(v) for n in (1, 2, 3) for v in itertools.product(dalpha, repeat=n)]
        for j, (u, v) in enumerate([(u, v) for u in dvecs for v in dvecs]):
            if j % nworkers != index: continue
            vl = lit_token('P', 'f', [len(v)], v)
            yield Case(['new ' + lit_token('P', 'f', [len(u)], u), 'new ' + lit_token('N', 'f', [len(v)], v),
                        'bin truediv @0 @1', f'bin truediv @0 {vl}', f'bin truediv @0 {vl.replace("P", "N", 1)}',
                        'copy @0', 'toarray @0', 'copy @0'], {'kind': 'exhaustive'})
            yield Case(['new ' + lit_token('P', 'f', [len(u)], u), 'new ' + lit_token('N', 'f', [len(v)], v), 'ibin truediv @0 @1', 'toarray @0'],
                       {'kind': 'exhaustive'})
            yield Case(['new ' + lit_token('P', 'f', [len(u)], u), f'ibin truediv @0 {vl}', 'toarray @0'], {'kind': 'exhaustive'})
        # logical vectors of size ≤ 3, every operator, binary and in place
        bvecs = [list(v) for n in (1, 2, 3) for v in itertools.product([0.0, 1.0], repeat=n)]
        for j, (u, v) in enumerate([(u, v) for u in bvecs for v in bvecs]):
            if j % nworkers != index: continue
            ops = ['new ' + lit_token('P', 'b', [len(u)], u), 'new ' + lit_token('N', 'b', [len(v)], v)] + ['copy @0'] * 12
            k = 2
            for op in ('add', 'mul', 'truediv', 'and', 'or', 'xor'):
                ops.append(f'ibin {op} @{k} @1'); k += 1
                ops.append(f'ibin {op} @{k} {lit_token("P", "b", [len(v)], v)}'); k += 1
            for op in ('add', 'sub', 'mul', 'truediv', 'and', 'or', 'xor') + CMP:
                ops.append(f'bin {op} @0 @1')
                ops.append(f'bin {op} @0 {lit_token("N", "b", [len(v)], v)}')
            yield Case(ops, {'kind': 'exhaustive'})
    for j in range(b['cases']):
        if j % nworkers != index: continue
        hr = random.Random(f'C09/history/{seed}/{j}')
        r = hr.random()
        mode = hr.choices(['vector', 'array', 'logical', 'mixed'], [35, 30, 15, 20])[0]
        yield gen_history(hr, 8 if r < 0.3 else (20 if r < 0.7 else 30), mode)


def extra_evidence(executed, model_outs):
    """which grid cells ran (every cell of the run's grid must have been executed by some worker)"""
    expected = [c.meta['cell'] for c in full_grid(run_seed())]
    ran = {}
    for c, _ in executed:
        if c.meta.get('kind') == 'grid': ran[c.meta['cell']] = ran.get(c.meta['cell'], 0) + 1
    want = {}
    for x in expected: want[x] = want.get(x, 0) + 1
    missing = sorted(x for x in want if ran.get(x, 0) < want[x])
    return {'grid_cases_expected': len(expected), 'grid_cases_executed': sum(ran.values()),
            'grid_cells_distinct': len(want), 'grid_cells_missing': missing,
            'py_stream_cases': sum(1 for c, _ in executed if c.meta.get('stream') == 'py')}


def search(case, rng, seconds):
    """the correspondence broke at `case`: look for an input near it on which the real code fails the property itself
    (an oracle failure that is not one of the listed findings)"""
    import time
    from harness import core
    known = {k['signature'] for k in core.load_known(PID)[0]}
    def failing(c):
        try: r = run_impl(c)
        except Exception: return False
        return any(f['signature'] not in known for f in r.failures)
    if failing(case): return case
    t0 = time.time()
    kinds = [l.split(' ')[0] + ' ' + l.split(' ')[1] for l in case.ops if l.split(' ')[0] in ('bin', 'ibin', 'rbin', 'red') and ' ' in l]
    heads = {l.split(' ')[0] for l in case.ops}
    mode = 'mixed'
    while time.time() - t0 < seconds:
        c = gen_history(rng, 20, mode)
        # prefer histories that use the operations of the broken case
        if kinds and not any(k in ' '.join(c.ops) for k in kinds) and rng.random() < 0.8: continue
        if not kinds and not (heads & {l.split(' ')[0] for l in c.ops}) and rng.random() < 0.8: continue
        if failing(c): return c
    return None




def corpus():
    """witnesses of the defects found so far (fixes_proposed/C09-*.md) and hand-written edge cases"""
    W = [
        ['new Pf1:0', 'new Pf3:1,2,4', 'bin truediv @0 @1', 'ibin add @2 Pf:1', 'toarray @0'],                     # C09-1
        ['new Pf3:1,0,0', 'new Pf3:0,1,1', 'bin truediv @0 @1'],                                                    # C09-2
        ['new Pb1:1', 'new Nb2:1,0', 'bin truediv @0 @1'],
        ['new Pf3:1,0,2', 'ibin sub @0 @0', 'toarray @0'],                                                          # C09-3
        ['new Pf2x2:1,0,0,2', 'ibin sub @2 @2', 'toarray @2'],
        ['new Pf2:1,2', 'ibin add @0 Nf2x1:1,2', 'toarray @0'],                                                     # C09-4
        ['new Pf1:0', 'ibin add @0 Pf2x3:1,2,3,4,5,6', 'toarray @0'],
        ['new Pf2:-1,2', 'new Pf2:1,1', 'setflags @0', 'remneg @0', 'mixfrom @0 @1', 'copylike @0 @1', 'toarray @0'],  # C09-5
        ['new Pf2x2:1,2,3,0', 'setflags @2', 'ibin add @2 Pf:1', 'clear @2', 'set @2 f0,1|f1,0 Pf:7', 'toarray @2'],
        ['new Pf3:0,-1,2', 'set @0 s_:_:_ Pf2x3:1,2,3,4,5,6', 'toarray @0'],                                        # C09-6
        ['new Pf2x2:0,0,0,0', 'red max @2 _ 1', 'red min @2 _ 1'],                                                  # C09-7
        ['new Pf2x2:1,0,0,2', 'red all @2 1 1', 'bin and @5 @5', 'ibin or @5 Pb:1', 'red any @2 1 1', 'ibin xor @8 Pb:1'],  # C09-8
        ['new Pf3x3:1,0,2,0,2,0,3,3,3', 'set @3 m1,0,1 Pf3:5,6,7', 'toarray @3'],                                   # C09-9
        ['new Pf3x3:1,0,2,0,2,0,3,3,3', 'get @3 i0', 'ibin add @3 @0', 'toarray @3'],                               # C09-10
        ['new Pf2x3:1,0,2,0,2,0', 'get @2 s_:_:_|F2,1'],                                                            # C09-11
        ['new Pf2x2:0,0,0,0', 'set @2 m1,1|s_:_:_ Pf2x2:3,3,7,0', 'toarray @2'],                                    # C09-12
        # edge cases
        ['new Pf3:1,-1,0', 'new Pf3:-1,1,0', 'bin add @0 @1', 'red any @2 _ 0', 'nzkeys @2', 'ibin add @0 @1', 'red all @0 _ 0'],
        ['new Pf1:2', 'new Pf3:1,0,-2', 'bin mul @0 @1', 'bin sub @0 @1', 'bin truediv @1 @0', 'bin gt @0 @1', 'bin le @1 @0'],
        ['new Pf3:4,2,1', 'rbin truediv Pf:2 @0', 'rbin sub Pi:1 @0', 'rbin truediv Pf3:4,4,4 @0', 'rbin truediv Pf:0 @0'],
        ['new Pf3:0,2,0', 'rbin truediv Pf:2 @0', 'bin truediv @0 Pf:0', 'new Pf3:0,0,0', 'bin truediv @1 Pf:0', 'bin truediv @0 @0'],
    ]
    return [Case(ops, {'kind': 'corpus'}) for ops in W]
