"""
C12 — changing how a stream represents phases never changes what it contains.

Adapter for the phase-representation machinery of thermosteam
(`Stream.phases` / `MultiStream.phases` / `MultiStream.phase` setters, `reduce_phases`, `as_stream`,
the `vle` / `lle` / `sle` accessors, `MultiStream.__getitem__` phase views, `get_data` / `set_data`),
generator of operation histories, and the property oracle evaluated on the real objects.
The Lean model is lean/ThermoVerif/Model/Phases.lean, the driver lean/Driver/C12.lean.

Protocol (one op per line; the answer is the canonical state of the stream and of every phase view
handed out so far, prefixed by `err=<Class> ` when the op raised):

  new S <phase> <T> <P> <f0,f1,f2>                 a single-phase Stream
  new M <p1,p2,..> <T> <P> <p:f0,f1,f2;...|->       a MultiStream
  sphases <p1,p2,..>      stream.phases = (...)      sphase <letters|->   stream.phase = '...'
  reduce | asstream | vle | lle | sle | empty        the method / accessor of that name
  view <p>                stream[p]                  (registers a handle h<k> when a new view object appears)
  wview <k> <i> <x>       h<k>.imol[chem_i] = x      wpar <p|-> <i> <x>   stream.imol[p, chem_i] = x
  wT <x> | wP <x>         stream.T / stream.P = x    wvT <k> <x> | wvP <k> <x>   the same through a view
  vphase <k> <p>          h<k>.phase = p             (the phase of a view is locked)
  save                    snapshots.append(stream.get_data())
  restore <k>             stream.set_data(snapshots[k])

Property oracle (real objects only), failure signatures:
  <op>/totals-changed, <op>/TP-changed   a conversion changed a per-chemical total / T / P
  <op>/row-moved                         the phase set afterwards contains every non-empty phase up to case, but some
                                         phase does not hold exactly the material whose destination it is (exact label
                                         if present, other-case label only if not)
  <op>/phase-dropped                     reduce_phases / as_stream left a non-empty phase without a place
  sphases/wrong-phase-set                `phases = t` succeeded but the phase tuple is not t
  raises-in-precondition:<S|M>           a conversion raised although its target contains every non-empty phase
  failed-conversion-corrupts             a conversion raised and changed the stream (or left it unusable)
  stale-view                             a view in `_streams` is not live (probe: write through one side, read through
                                         the other, T/P likewise; every probe is undone)
  restore/raises, restore/mismatch       set_data of a snapshot raised / did not reproduce what get_data saw
  <op>/contents-changed                  view, save, T/P writes or a (refused) view.phase assignment changed flows/phases
"""
from __future__ import annotations
import random, warnings
from fractions import Fraction
from harness.core import Case, ImplResult, frac

PID = 'C12'
LEAN_MODULES = ['ThermoVerif.Props.C12']
RULE = ('histories of up to 30 phase-representation operations (phases/phase setters, reduce_phases, as_stream, '
        'vle/lle/sle accessors, phase views, writes through views and parent, T/P writes, get_data/set_data) on one '
        'real Stream/MultiStream over (Water, Ethanol, Octane) with dyadic flows over subsets of the phases '
        's,l,g,S,L; generated adaptively on the real object so that ~85% of conversions target a phase set that '
        'contains every non-empty phase up to case; a case is non-trivial when at least one conversion changed '
        'type(stream) or its phase tuple while material was present; distinct = distinct op sequences')
ASSUMPTIONS = [
    'a SparseVector row is modelled by its dense image (a list of rationals); Python object identity by store ids',
    'flows are non-negative dyadic rationals, so every sum the code performs is exact in binary64 (exact comparison)',
    'the equilibrium solver objects returned by vle/lle/sle are not modelled (only the phase-set extension of the accessor)',
    'the model describes the behaviour WITH the patches fixes_proposed/C12-1..3 applied (stale views, set_data, '
    'Stream.phases setter); on a tree without them the check reports these as violations',
    'one stream per history (links/copies are C13); invalid phase letters and empty phase sets are not generated',
]
TRUSTED = ['Lean 4.33 kernel', 'correspondence harness harness/props/c12.py + Driver/C12.lean',
           'the adapter reads the private attributes _streams, _imol, _thermal_condition for identity observations only',
           'generator reach (see histogram)']
EXHAUSTIVE = {'quick': False, 'thorough': False}

tmo = None
CHEMS = ['Water', 'Ethanol', 'Octane']
N = len(CHEMS)
PHASES = ['L', 'S', 'g', 'l', 's']          # ASCII order = phase_tuple order
CONVERSIONS = ('sphases', 'sphase', 'reduce', 'asstream', 'vle', 'lle', 'sle')


def setup():
    global tmo
    import thermosteam as tmo_
    tmo = tmo_
    warnings.simplefilter('ignore')
    tmo.settings.set_thermo(CHEMS, cache=True)


def budget(tier):
    return {'quick': dict(seconds=45, cases=2400, shrink_s=15, search_s=10),
            'thorough': dict(seconds=420, cases=160000, shrink_s=40, search_s=30)}[tier]


def swap(p):
    """the other-case label (what the code falls back to when the exact label is absent); 'G' is not a phase"""
    return p.lower() if p.isupper() else p.upper()


def alt(p):
    """a valid label that may stand in for p in a generated target"""
    return p if p == 'g' else swap(p)


def fr(x):
    return frac(float(x))


def rowstr(vals):
    return '[' + ','.join(fr(v) for v in vals) + ']'


ERRMAP = {'UndefinedPhase': 'UndefinedPhase', 'RuntimeError': 'RuntimeError', 'AttributeError': 'AttributeError',
          'IndexError': 'IndexError', 'KeyError': 'KeyError', 'TypeError': 'TypeError', 'ValueError': 'ValueError'}


class Corrupt(Exception):
    pass


class Universe:
    """The real objects of one case: one stream, the phase views handed out, the snapshots."""

    def __init__(self):
        self.s = None
        self.handles = []
        self.snaps = []
        self.snap_obs = []

    # ---- observation (real objects only) ---------------------------------------
    def kind(self):
        t = type(self.s)
        if t is tmo.Stream: return 'S'
        if t is tmo.MultiStream: return 'M'
        return '?'

    def obs(self):
        """(kind, phases, {phase: [Fraction]*N}, T, P) through the public API."""
        s = self.s
        k = self.kind()
        phases = tuple(s.phases)
        rows = {}
        if k == 'M':
            for p in phases:
                rows[p] = [Fraction(float(s.imol[p, c])) for c in CHEMS]
        else:
            rows[phases[0]] = [Fraction(float(s.imol[c])) for c in CHEMS]
        return (k, phases, rows, Fraction(float(s.T)), Fraction(float(s.P)))

    def show(self):
        try:
            k, phases, rows, T, P = self.obs()
            s = self.s
            out = [f'k={k}', 'ph=' + ','.join(phases), 'rows=' + ';'.join(rowstr(rows[p]) for p in phases),
                   'T=' + frac(T), 'P=' + frac(P)]
            cache = []
            if k == 'M':
                for p in sorted(s._streams):
                    v = s._streams[p]
                    idx = [i for i, h in enumerate(self.handles) if h is v]
                    cache.append(f'{p}>h{idx[0]}' if idx else f'{p}>?')
            out.append('cache=' + ','.join(cache))
            hs = []
            prow = list(s._imol.data.rows) if k == 'M' else [s._imol.data]
            for i, h in enumerate(self.handles):
                at = '-'
                for p, r in zip(phases, prow):
                    if h._imol.data is r: at = p; break
                tc = 1 if h._thermal_condition is s._thermal_condition else 0
                vals = [Fraction(float(h.imol[c])) for c in CHEMS]
                hs.append(f'h{i}:{h.phase}@{at}:tc{tc}:{rowstr(vals)}')
            out.append('hs=' + '|'.join(hs))
            return ' '.join(out)
        except Exception as e:
            raise Corrupt(f'{type(e).__name__}: {e}')

    def nonempty(self, o=None):
        k, phases, rows, T, P = o or self.obs()
        return [p for p in phases if any(rows[p])]

    # ---- operations --------------------------------------------------------------
    def apply(self, line):
        t = line.split(' ')
        op = t[0]
        s = self.s
        if op == 'new':
            T, P = float(Fraction(t[3])), float(Fraction(t[4]))
            if t[1] == 'S':
                fl = [float(Fraction(x)) for x in t[5].split(',')]
                self.s = tmo.Stream(None, phase=t[2], T=T, P=P, **{c: v for c, v in zip(CHEMS, fl)})
            else:
                phases = tuple(t[2].split(','))
                kw = {}
                if t[5] != '-':
                    for part in t[5].split(';'):
                        p, vals = part.split(':')
                        kw[p] = [(c, float(Fraction(v))) for c, v in zip(CHEMS, vals.split(','))]
                self.s = tmo.MultiStream(None, phases=phases, T=T, P=P, **kw)
        elif op == 'sphases':
            s.phases = tuple(t[1].split(','))
        elif op == 'sphase':
            s.phase = '' if t[1] == '-' else t[1]
        elif op == 'reduce':
            s.reduce_phases()
        elif op == 'asstream':
            s.as_stream()
        elif op == 'vle':
            s.vle
        elif op == 'lle':
            s.lle
        elif op == 'sle':
            s.sle
        elif op == 'empty':
            s.empty()
        elif op == 'view':
            v = s[t[1]]
            if not any(h is v for h in self.handles) and v is not s:
                self.handles.append(v)
        elif op == 'wview':
            self.handles[int(t[1])].imol[CHEMS[int(t[2])]] = float(Fraction(t[3]))
        elif op == 'wpar':
            if t[1] == '-':
                s.imol[CHEMS[int(t[2])]] = float(Fraction(t[3]))
            else:
                s.imol[t[1], CHEMS[int(t[2])]] = float(Fraction(t[3]))
        elif op == 'wT':
            s.T = float(Fraction(t[1]))
        elif op == 'wP':
            s.P = float(Fraction(t[1]))
        elif op == 'wvT':
            self.handles[int(t[1])].T = float(Fraction(t[2]))
        elif op == 'wvP':
            self.handles[int(t[1])].P = float(Fraction(t[2]))
        elif op == 'vphase':
            self.handles[int(t[1])].phase = t[2]
        elif op == 'save':
            self.snaps.append(s.get_data())
            self.snap_obs.append(self.obs())
        elif op == 'restore':
            s.set_data(self.snaps[int(t[1])])
        else:
            raise ValueError('unknown op ' + line)

    # ---- the property, on the real objects ---------------------------------------
    def target_of(self, line, pre):
        """The phase set a conversion asks for (None when the op has no explicit target)."""
        t = line.split(' ')
        op = t[0]
        k, phases = pre[0], pre[1]
        if op == 'sphases': return set(t[1].split(','))
        if op == 'sphase':
            if k == 'S': return None                 # relabelling a single-phase stream: a deliberate phase change
            return set('l' if t[1] == '-' else t[1])
        if op in ('vle', 'lle', 'sle'):
            ext = {'vle': ('g', 'l'), 'lle': ('L', 'l'), 'sle': ('s', 'l')}[op]
            return set(ext) | (set(phases) if k == 'M' else set())
        return None

    def judge_conversion(self, line, pre, post, err):
        """Failures of the conversion clauses of C12 for one op; `post` is None when the object is unusable."""
        op = line.split(' ')[0]
        out = []
        k0, ph0, rows0, T0, P0 = pre
        ne0 = [p for p in ph0 if any(rows0[p])]
        target = self.target_of(line, pre)
        in_pre = target is not None and all((p in target) or (swap(p) in target) for p in ne0)
        if post is None:
            out.append(('failed-conversion-corrupts',
                        f'`{line}` raised {err} and left the stream unusable (type {type(self.s).__name__}, '
                        f'indexer {type(self.s._imol).__name__})'))
            if in_pre:
                out.append((f'raises-in-precondition:{k0}',
                            f'`{line}` raised {err} although the target {sorted(target)} contains every non-empty phase {ne0}'))
            return out
        k1, ph1, rows1, T1, P1 = post
        tot0 = [sum(rows0[p][i] for p in ph0) for i in range(N)]
        tot1 = [sum(rows1[p][i] for p in ph1) for i in range(N)]
        if tot0 != tot1:
            out.append((f'{op}/totals-changed', f'`{line}` changed the per-chemical totals {tot0} -> {tot1}'))
        if (T0, P0) != (T1, P1):
            out.append((f'{op}/TP-changed', f'`{line}` changed T,P {(T0, P0)} -> {(T1, P1)}'))
        if err is not None:
            if (k0, ph0, rows0) != (k1, ph1, rows1):
                out.append(('failed-conversion-corrupts',
                            f'`{line}` raised {err} but changed the stream: {k0}{ph0} -> {k1}{ph1}'))
            if in_pre:
                out.append((f'raises-in-precondition:{k0}',
                            f'`{line}` raised {err} although the target {sorted(target)} contains every non-empty phase {ne0}'))
            return out
        if op == 'sphase' and k0 == 'S':
            return out
        # rows: each non-empty phase's material stays in that phase, case-folded only when the exact label is absent
        if op in ('reduce', 'asstream') and not all((p in ph1) or (swap(p) in ph1) for p in ne0):
            # "collapsing to the phases actually present": no non-empty phase may lose its place
            out.append((f'{op}/phase-dropped', f'`{line}`: non-empty phases {ne0} but phases afterwards are {ph1}'))
        if all((p in ph1) or (swap(p) in ph1) for p in ne0):
            want = {q: [Fraction(0)] * N for q in ph1}
            for p in ne0:
                q = p if p in ph1 else swap(p)
                want[q] = [a + b for a, b in zip(want[q], rows0[p])]
            if want != {q: rows1[q] for q in ph1}:
                out.append((f'{op}/row-moved', f'`{line}`: material did not stay in its phase: {rows0} -> {rows1}'))
        if target is not None and op == 'sphases' and set(ph1) != target:
            out.append((f'{op}/wrong-phase-set', f'`{line}`: phases afterwards are {ph1}'))
        return out

    def probe_views(self):
        """Every cached phase view must be live: same numbers as the parent's row for that phase, writes through
        either side visible on the other, shared T and P.  Probes write and undo (exact)."""
        s = self.s
        if type(s) is not tmo.MultiStream: return None
        for p in sorted(s._streams):
            v = s._streams[p]
            try:
                c = CHEMS[0]
                old = float(s.imol[p, c])
            except Exception as e:
                return f"cached view {p!r} has no row in the parent any more ({type(e).__name__})"
            if float(v.imol[c]) != old:
                return f"cached view {p!r} shows {float(v.imol[c])} for {c} where the parent has {old}"
            s.imol[p, c] = old + 1.0
            seen = float(v.imol[c])
            v.imol[c] = old
            back = float(s.imol[p, c])
            s.imol[p, c] = old
            if seen != old + 1.0:
                return f"a write through the parent at phase {p!r} is not visible through the cached view"
            if back != old:
                return f"a write through the cached view {p!r} is not visible in the parent"
            T = float(s.T)
            if float(v.T) != T or float(v.P) != float(s.P):
                return f"cached view {p!r} has different T/P than the parent"
            s.T = T + 1.0
            seenT = float(v.T)
            v.T = T
            backT = float(s.T)
            s.T = T
            if seenT != T + 1.0 or backT != T:
                return f"cached view {p!r} does not share the thermal condition of the parent"
            # the same liveness through the view's mass accessor (a derived view over the same row): the
            # accessor is touched as soon as the view exists, so a re-attachment that leaves it wrapping a
            # discarded row shows here
            try:
                mw = float(getattr(s.chemicals, c).MW)
                m_view = float(v.imass[c])
                m_par = float(s.imol[p, c]) * mw
                if abs(m_view - m_par) > 1e-9 * max(1.0, abs(m_par)):
                    return (f"the mass accessor of cached view {p!r} shows {m_view} kg/hr of {c} where the parent "
                            f"holds {m_par} kg/hr")
                v.imass[c] = (old + 2.0) * mw
                back = float(s.imol[p, c])
                s.imol[p, c] = old
                if abs(back - (old + 2.0)) > 1e-9 * max(1.0, abs(old) + 2.0):
                    return f"a write through the mass accessor of cached view {p!r} is not visible in the parent"
            except (AttributeError, KeyError):
                pass
        return None


def opkind(line):
    return line.split(' ')[0]


def run_ops(ops):
    U = Universe()
    outs, failures, dead = [], [], False
    converted = False
    stale_reported = False
    for i, line in enumerate(ops):
        if dead:
            outs.append('dead'); continue
        op = opkind(line)
        if U.s is None and op != 'new':
            outs.append('err=NoStream'); continue
        pre = U.obs() if U.s is not None else None
        err = None
        try:
            U.apply(line)
        except Exception as e:
            err = ERRMAP.get(type(e).__name__, type(e).__name__)
        try:
            state = U.show()
            post = U.obs()
        except Corrupt as e:
            state, post = None, None
        def fail(sig, what):
            failures.append({'signature': sig, 'op_index': i, 'what': what})
        if op in CONVERSIONS:
            for sig, what in U.judge_conversion(line, pre, post, err):
                fail(sig, what)
        elif op == 'restore':
            k = int(line.split(' ')[1])
            if err is not None or post is None:
                fail('restore/raises', f'set_data of snapshot {k} raised {err}: stream had phases {pre[1]} with non-empty '
                                       f'{U.nonempty(pre)}, snapshot has phases {U.snap_obs[k][1]}')
            elif post != U.snap_obs[k]:
                fail('restore/mismatch', f'set_data(snapshot {k}) gave {post} where get_data saw {U.snap_obs[k]}')
        elif op in ('view', 'save', 'wT', 'wP', 'wvT', 'wvP', 'vphase') and post is not None and pre is not None:
            # none of these may change the contents
            if (pre[0], pre[1], pre[2]) != (post[0], post[1], post[2]):
                fail(f'{op}/contents-changed', f'`{line}` changed the flows or phases')
        if post is None:
            outs.append(f'err={err} corrupt')
            dead = True
            continue
        outs.append((f'err={err} ' if err else '') + state)
        if pre is not None and op in CONVERSIONS and (pre[0], pre[1]) != (post[0], post[1]) and U.nonempty(post):
            converted = True
        if not stale_reported:
            w = U.probe_views()
            if w:
                stale_reported = True
                fail('stale-view', f'after `{line}`: {w}')
    return U, outs, failures, converted


def run_impl(case: Case) -> ImplResult:
    U, outs, failures, converted = run_ops(case.ops)
    tags = sorted({opkind(l) for l in case.ops})
    tags += sorted({'err:' + o.split(' ')[0][4:] for o in outs if o.startswith('err=')})
    for l, o in zip(case.ops, outs):
        if opkind(l) in CONVERSIONS and not o.startswith('err=') and o != 'dead':
            tags.append('conv:' + opkind(l) + ':' + o.split(' ')[0][2:])
    return ImplResult(model_in=list(case.ops), outs=outs, failures=failures, tags=tags,
                      nontrivial=(tuple(case.ops) if converted else None))


# --------------------------------------------------------------------------
# generation
# --------------------------------------------------------------------------

def dy(rng, zero=0.3):
    """a non-negative dyadic flow"""
    if rng.random() < zero: return 0.0
    return rng.randrange(1, 257) / (1 << rng.randrange(0, 4))


def gen_T(rng):
    return str(Fraction(rng.randrange(250 * 4, 450 * 4), 4))


def gen_P(rng):
    return str(rng.randrange(50, 400) * 1000)


def gen_new(rng):
    T, P = gen_T(rng), gen_P(rng)
    if rng.random() < 0.4:
        p = rng.choice(PHASES if rng.random() < 0.5 else ['l', 'g', 'l', 's'])
        fl = [dy(rng) for _ in range(N)]
        return f'new S {p} {T} {P} ' + ','.join(fr(x) for x in fl)
    m = rng.choice([2, 2, 3, 3, 4, 5])
    phases = sorted(rng.sample(PHASES, m))
    parts = []
    for p in phases:
        if rng.random() < 0.55:
            parts.append(p + ':' + ','.join(fr(dy(rng)) for _ in range(N)))
    return f'new M {",".join(phases)} {T} {P} ' + (';'.join(parts) if parts else '-')


def gen_target(rng, U, valid=0.85):
    """a target phase set; mostly one that contains every non-empty phase up to case"""
    ne = U.nonempty()
    if rng.random() < valid:
        base = set()
        for p in ne:
            base.add(p if rng.random() < 0.7 else alt(p))
        extra = [p for p in PHASES if p not in base]
        rng.shuffle(extra)
        k = rng.choice([0, 1, 1, 2, 2, 3])
        base |= set(extra[:k])
        if not base: base.add(rng.choice(PHASES))
        return sorted(base)
    return sorted(rng.sample(PHASES, rng.choice([1, 2, 2, 3])))


def gen_op(rng, U):
    k = U.kind()
    o = U.obs()
    phases = o[1]
    kinds = ['sphases', 'sphase', 'reduce', 'asstream', 'vle', 'lle', 'sle', 'view', 'wview', 'wpar',
             'wT', 'wP', 'wvT', 'wvP', 'save', 'restore', 'empty', 'vphase']
    w = [16, 6, 5, 4, 4, 4, 4, 14 if k == 'M' else 0, 8 if U.handles else 0, 12,
         3, 2, 3 if U.handles else 0, 1 if U.handles else 0, 6, 8 if U.snaps else 0, 1, 1 if U.handles else 0]
    op = rng.choices(kinds, w)[0]
    if op == 'sphases':
        return 'sphases ' + ','.join(gen_target(rng, U))
    if op == 'sphase':
        if k == 'S':
            return 'sphase ' + rng.choice(PHASES)
        r = rng.random()
        if r < 0.1: return 'sphase -'
        if r < 0.5:
            ne = U.nonempty()
            if len(ne) == 1: return 'sphase ' + (ne[0] if rng.random() < 0.7 else alt(ne[0]))
            return 'sphase ' + rng.choice(PHASES)
        return 'sphase ' + ''.join(gen_target(rng, U))
    if op in ('reduce', 'asstream', 'vle', 'lle', 'sle', 'empty', 'save'):
        return op
    if op == 'view':
        if rng.random() < 0.8: return 'view ' + rng.choice(phases)
        return 'view ' + rng.choice(PHASES)
    if op == 'wview':
        return f'wview {rng.randrange(len(U.handles))} {rng.randrange(N)} {fr(dy(rng, 0.2))}'
    if op == 'wpar':
        if k == 'S': return f'wpar - {rng.randrange(N)} {fr(dy(rng, 0.2))}'
        p = rng.choice(phases) if rng.random() < 0.9 else rng.choice(PHASES)
        return f'wpar {p} {rng.randrange(N)} {fr(dy(rng, 0.25))}'
    if op == 'wT': return 'wT ' + gen_T(rng)
    if op == 'wP': return 'wP ' + gen_P(rng)
    if op == 'wvT': return f'wvT {rng.randrange(len(U.handles))} {gen_T(rng)}'
    if op == 'wvP': return f'wvP {rng.randrange(len(U.handles))} {gen_P(rng)}'
    if op == 'restore': return f'restore {rng.randrange(len(U.snaps))}'
    if op == 'vphase':
        h = rng.randrange(len(U.handles))
        return f'vphase {h} {U.handles[h].phase if rng.random() < 0.4 else rng.choice(PHASES)}'
    return 'save'


def gen_case(rng, length):
    U = Universe()
    ops = [gen_new(rng)]
    U.apply(ops[0])
    for _ in range(length):
        try:
            line = gen_op(rng, U)
        except Exception:
            break
        ops.append(line)
        try:
            U.apply(line)
        except Exception:
            pass
        try:
            U.show()
        except Corrupt:
            break
    return Case(ops, {})


def grid_cases():
    """every (source representation) x (conversion) pair once, with material in one phase"""
    out = []
    srcs = [f'new S {p} 300 101325 1,2,0' for p in PHASES]
    srcs += [f'new M {a},{b} 300 101325 {a}:1,0,2' for a in PHASES for b in PHASES if a < b]
    srcs += [f'new M {a},{b} 300 101325 {a}:1,0,2;{b}:0,3,1/2' for a in PHASES for b in PHASES if a < b]
    convs = ['reduce', 'asstream', 'vle', 'lle', 'sle', 'sphases g,l', 'sphases L,l', 'sphases l', 'sphases L,S,g,l,s',
             'sphase l', 'sphase -', 'sphase gl']
    for s in srcs:
        for c in convs:
            out.append(Case([s, 'save', c, 'restore 0'], {}))
    return out


def generate(rng, tier, index, nworkers):
    b = budget(tier)
    if index == 0:
        g = grid_cases()
        if tier == 'quick': g = g[::3]
        yield from g
    n = max(1, b['cases'] // nworkers)
    for j in range(n):
        r = rng.random()
        if r < 0.35:
            yield gen_case(rng, rng.randrange(2, 8))
        elif r < 0.85:
            yield gen_case(rng, rng.randrange(8, 20))
        else:
            yield gen_case(rng, 30)


def corpus():
    return [
        # (#7) a phase view obtained before the phase set is extended must stay attached
        Case(['new M g,l 300 101325 l:4,0,0;g:0,2,0', 'view l', 'sphases g,l,s', 'wpar l 0 7', 'wview 0 1 3']),
        Case(['new M g,l 300 101325 l:4,0,0', 'view l', 'view g', 'lle', 'wview 0 0 1', 'sle', 'wview 1 2 5']),
        # a view under a case-alias key, then the alias becomes a phase of its own
        Case(['new M g,l 300 101325 l:4,0,0', 'view L', 'wview 0 0 2', 'sphases L,g,l', 'wview 0 0 3']),
        # a cached view of a phase that disappears
        Case(['new M g,l,s 300 101325 l:4,0,0', 'view s', 'view l', 'sphases g,l', 'view s', 'sphases g,l,s', 'view s']),
        # (#27) restoring a snapshot that lacks a phase holding material now
        Case(['new S l 300 101325 3,0,0', 'lle', 'save', 'vle', 'wpar g 0 1', 'restore 0']),
        Case(['new S g 300 101325 3,0,0', 'save', 'sphase l', 'lle', 'save', 'restore 0', 'restore 1', 'restore 0']),
        Case(['new M L,l 320 90000 L:1,1,1', 'save', 'sphases g,s', 'restore 0']),
        # an empty single-phase stream may take any phase set; a failed conversion must leave the stream intact
        Case(['new S g 300 101325 0,0,0', 'sphases L,l', 'wpar l 0 1']),
        Case(['new S g 300 101325 1,0,0', 'sphases L,l', 'wT 310', 'sphases g,l']),
        Case(['new S S 300 101325 1,0,0', 'vle', 'sle']),
        # case folding: only when the exact label is absent
        Case(['new M L,l 300 101325 L:1,0,0;l:0,2,0', 'sphases g,l', 'sphases L,g', 'sphases L,l', 'reduce']),
        Case(['new M L,S,g 300 101325 L:1,0,0;S:0,2,0', 'reduce', 'asstream', 'sphases l,s']),
        Case(['new M L,S,g 300 101325 -', 'asstream', 'sphases g,l', 'reduce']),
        Case(['new M g,l 300 101325 l:1,0,0;g:0,2,0', 'view g', 'sphases g', 'wview 0 0 4', 'wvT 0 350', 'sphases g,l', 'view g']),
        # a snapshot is a copy: later writes must not leak into it
        Case(['new S g 300 101325 3,0,0', 'save', 'wpar - 0 5', 'wT 350', 'sphase l', 'restore 0']),
        Case(['new M g,l 300 101325 l:1,0,0;g:0,2,0', 'save', 'wpar l 0 5', 'view l', 'wview 0 1 1', 'restore 0']),
        # both liquid labels present: 'l' and 'L' are different rows
        Case(['new M L,l 300 101325 L:1,0,0', 'wpar l 1 2', 'wpar L 2 3', 'view l', 'view L', 'vphase 0 L', 'vphase 1 L']),
        # reduce_phases keeps a place for upper-case phases
        Case(['new M L,s 300 101325 L:0,0,95;s:225/4,0,0', 'reduce']),
        Case(['new M L,S,g 300 101325 S:1,0,0', 'asstream']),
    ]


def search(case, rng, budget_s):
    """Look for a property failure on the real code near a disagreement: random continuations."""
    import time
    t0 = time.time()
    while time.time() - t0 < budget_s:
        U = Universe()
        ops = list(case.ops)
        try:
            for l in ops:
                try: U.apply(l)
                except Exception: pass
            U.show()
            for _ in range(rng.randrange(1, 8)):
                l = gen_op(rng, U); ops.append(l)
                try: U.apply(l)
                except Exception: pass
                U.show()
        except Exception:
            pass
        c = Case(ops, {})
        try:
            res = run_impl(c)
        except Exception:
            return None
        if res.failures: return c
    return None
