"""
C12 — changing how a stream represents phases never changes what it contains.

Adapter for the phase-representation machinery of thermosteam
(`Stream.phases` / `MultiStream.phases` / `MultiStream.phase` setters, `reduce_phases`, `as_stream`,
the `vle` / `lle` / `sle` accessors, `MultiStream.__getitem__` phase views, `get_data` / `set_data`) and for the
operations that re-seat or grow the flow data under a stream's phase views (`unlink`, `link_with`, `copy_like`,
`mix_from` with phase growth, `_reset_thermo` to an equal-order package, `proxy`), generator of operation
histories over a small universe of streams, and the property oracle evaluated on the real objects.
The Lean model is lean/ThermoVerif/Model/Phases.lean, the driver lean/Driver/C12.lean.

Protocol (one op per line; streams are numbered in creation order; the answer is the canonical state of every
stream and of every phase view handed out so far, prefixed by `err=<Class> ` when the op raised):

  chems <n>               (optional first line) the case uses the first n of (Water, Ethanol, Octane, Glycerol); default 3
  new S <phase> <T> <P> <f0,f1,f2>                 a single-phase Stream            (becomes stream #next)
  new M <p1,p2,..> <T> <P> <p:f0,f1,f2;...|->       a MultiStream
  sphases <k> <p1,p2,..> [tuple|list|set|str|gen]   s_k.phases = that container of the labels (duplicates allowed)
  sphase <k> <letters|->  s_k.phase = '...'
  reduce|asstream|vle|lle|sle|empty <k>              the method / accessor of that name
  view <k> <p>            s_k[p]                     (registers a handle h<n> when a new view object appears)
  wview <h> <i> <x>       h.imol[chem_i] = x         wpar <k> <p|-> <i> <x>   s_k.imol[p, chem_i] = x
  wT|wP <k> <x>           s_k.T / s_k.P = x          wvT|wvP <h> <x>          the same through a view
  vphase <h> <p>          h.phase = p                (the phase of a view is locked)
  hphases <h> <p1,..>     h.phases = (...)           hvle|hlle|hsle <h>   h.vle / h.lle / h.sle   (conversions asked of a view)
  iter <k>                list(s_k)                  (MultiStream.__iter__: the view of every phase, registered as handles)
  save <k>                snapshots.append(s_k.get_data())
  restore <k> <n>         s_k.set_data(snapshots[n])
  tmp <k> <T|-> <P|->     contexts.append(s_k.temporary(T=, P=))       enter <c> / exit <c>   contexts[c].__enter__() / .__exit__(None, None, None)
  with <k> <T|-> <P|->    with s_k.temporary(T=, P=): pass
  unlink <k>              s_k.unlink()
  link <k> <j> <f> <t>    s_k.link_with(s_j, flow=f, TP=t)
  copylike <k> <j>        s_k.copy_like(s_j)
  mix <k> <j1,j2,..>      s_k.mix_from([s_j1, ...], energy_balance=False)
  thermo <k> <t>          s_k._reset_thermo(package t)    (packages 0,1,2: same chemicals, same order)
  proxy <k>               s_k.proxy()                (becomes stream #next)

Property oracle (real objects only), failure signatures:
  <op>/totals-changed, <op>/TP-changed   a conversion changed a per-chemical total / T / P
  <op>/row-moved                         the phase set afterwards contains every non-empty phase up to case, but some
                                         phase does not hold exactly the material whose destination it is (exact label
                                         if present, other-case label only if not)
  <op>/phase-dropped                     reduce_phases / as_stream left a non-empty phase without a place
  sphases/wrong-phase-set                `phases = t` succeeded but the phase tuple is not t
  raises-in-precondition:<S|M>           a conversion raised although its target contains every non-empty phase
  failed-conversion-corrupts             a conversion raised and changed the stream (or left it unusable)
  stale-view                             a view in `_streams` is not live (probe: write through one side, read through
                                         the other, T/P likewise, molar and mass accessor; every probe is undone)
  stale-view/shared-dict                 the same for a stream whose `_streams` dict is shared with another stream
                                         (a proxy after one of the two re-seated its data)
  stale-solver[:<op>]                    the VLE/LLE/SLE cache (or the solver an accessor returned) of a MultiStream is not
                                         bound to the stream's current indexer / thermal condition / package
  view-converted                         a conversion asked of a phase view changed its class or detached it from its parent
  iter/not-the-views, view/alias-refused iteration does not yield the phase views; Stream[label in the other case] refused
  mass-view/<what>                       the stream's own mass accessor / F_mass disagrees with its molar flows (stale _data_cache)
  restore/raises, restore/mismatch       set_data of a snapshot raised / did not reproduce what get_data saw
  temporary/enter, temporary/exit-mismatch, temporary/raises   a temporary(...) context did not set T/P on entering (judged for the separate enter/exit form only) (or changed
                                         flows/phases), did not put the stream back into the state it had ON ENTERING, or raised
  <op>/contents-changed                  view, save, T/P writes, a (refused) view.phase assignment, unlink or
                                         _reset_thermo changed flows/phases (unlink, thermo: also T, P)
  <op>/other-stream-changed              a conversion, unlink, _reset_thermo or proxy changed a stream that shares
                                         nothing with the one operated on
  unlink/still-shared                    after unlink the stream still shares row objects or its thermal condition
  link/mismatch, copylike/mismatch       the receiver does not show the linked / copied flows (by phase), T, P
  mix/totals                             the receiver's totals are not the sum of the inlets' totals
  proxy/mismatch                         the proxy does not show the original's contents
  fromstreams/{phases,rows,views,stale-view,TP,raises}   MultiStream.from_streams: each given stream must be the live view of ITS phase
  onephase/{restore-mismatch,raises}     the snapshot of a MultiStream constructed over ONE phase restores flows, phases, T, P
                                         (both classes are oracle-only: '@' cases send nothing to the driver)
"""
from __future__ import annotations
import random, warnings
from fractions import Fraction
from harness.core import Case, ImplResult, frac

PID = 'C12'
LEAN_MODULES = ['ThermoVerif.Props.C12']
RULE = ('histories of up to 30 operations (phases/phase setters, reduce_phases, as_stream, vle/lle/sle accessors, '
        'phase views, writes through views and parents, T/P writes, get_data/set_data, unlink, link_with, copy_like, '
        'mix_from, _reset_thermo, proxy) on a universe of 2-5 real Stream/MultiStream objects over '
        'the first 2-4 of (Water, Ethanol, Octane, Glycerol) with signed dyadic flows (negative entries, exactly '
        'cancelling rows and totals included) over subsets of the phases s,l,g,S,L; phases= is given tuples, lists, sets, '
        'strings and generators with duplicates; generated adaptively on '
        'the real objects so that ~85% of conversions target a phase set that contains every non-empty phase up to '
        'case; a case is non-trivial when a conversion changed type(stream) or its phase tuple while material was '
        'present, or a data-re-seating operation ran on a MultiStream that had cached views; distinct = distinct op '
        'sequences')
ASSUMPTIONS = [
    'a SparseVector row is modelled by its dense image (a list of rationals); Python object identity by store ids',
    'flows are signed dyadic rationals, so every sum the code performs is exact in binary64 (exact comparison)',
    'the equilibrium solver objects returned by vle/lle/sle are not in the Lean model (only the phase-set extension of the '
    'accessor); their binding to the stream (indexer, thermal condition, package) is checked by the oracle on the real '
    'objects after every operation (signature stale-solver): decided by oracle, not by proof',
    'link_with is modelled between MultiStreams (over the same phase tuple when flows are linked); outside the model '
    '(never generated): linking single-phase streams or a stream that has a proxy, growing the phases of an indexer '
    'whose rows are linked to another indexer or under a cached case-alias key, _reset_thermo of a stream that has '
    'a proxy, copy_like/mix_from between streams that share rows but belong to different packages',
    'property packages 0,1,2 hold the same chemicals in the same order; mix_from is used with energy_balance=False',
    'a conversion asked of a phase view (view.phases = two or more labels, view.vle/.lle/.sle) is modelled WITH patch '
    'fixes_proposed/C12-10 (refused: the phase of a view is locked); view.copy_like(multi) / view.set_data(multi snapshot) '
    'and one-phase MultiStreams (MultiStream(phases=(p,)) and its set_data branch) are not modelled and never generated',
    'stream.temporary(T=, P=) contexts (created early, entered later, exited, and the one-line `with` form) are composed by the '
    'driver from the model operations save / T,P write / restore; the flow= and phase= arguments of temporary() are not exercised',
    'MultiStream.from_streams and MultiStreams constructed over one phase are NOT in the Lean model: their `@` cases are '
    'decided by the oracle on the real objects only (exact Fraction equality), no correspondence, no theorem',
    'invalid phase letters and empty phase sets are not generated',
]
TRUSTED = ['Lean 4.33 kernel', 'correspondence harness harness/props/c12.py + Driver/C12.lean',
           'the adapter reads the private attributes _streams, _imol, _thermal_condition for identity observations only',
           'generator reach (see histogram)']
EXHAUSTIVE = {'quick': False, 'thorough': False}

tmo = None
ALL_CHEMS = ['Water', 'Ethanol', 'Octane', 'Glycerol']
THERMOS_BY_N = {}       # n -> three property packages over the first n chemicals (same order)
CHEMS = ALL_CHEMS[:3]  # chemicals of the case being run (set by `chems n`)
THERMOS = []
N = 3
PHASES = ['L', 'S', 'g', 'l', 's']          # ASCII order = phase_tuple order
CONVERSIONS = ('sphases', 'sphase', 'reduce', 'asstream', 'vle', 'lle', 'sle')
RESEATING = ('unlink', 'link', 'copylike', 'mix', 'thermo', 'proxy')


def setup():
    global tmo
    import thermosteam as tmo_
    tmo = tmo_
    warnings.simplefilter('ignore')
    for n in (2, 3, 4):
        THERMOS_BY_N[n] = [tmo.Thermo(tmo.Chemicals(ALL_CHEMS[:n], cache=True)) for _ in range(3)]
    use_chems(3)


def use_chems(n):
    global CHEMS, N
    CHEMS = ALL_CHEMS[:n]
    N = n
    THERMOS[:] = THERMOS_BY_N[n]
    tmo.settings.set_thermo(THERMOS[0])


def budget(tier):
    return {'quick': dict(seconds=45, cases=2400, shrink_s=15, search_s=10),
            'thorough': dict(seconds=420, cases=90000, shrink_s=40, search_s=30)}[tier]


def swap(p):
    """the other-case label (what the code falls back to when the exact label is absent); 'G' is not a phase"""
    return p.lower() if p.isupper() else p.upper()


def alt(p):
    """a valid label that may stand in for p in a generated target"""
    return p if p == 'g' else swap(p)


def dest(labels, p):
    if p in labels: return p
    q = swap(p)
    return q if q in labels else None


def fr(x):
    return frac(float(x))


def rowstr(vals):
    return '[' + ','.join(fr(v) for v in vals) + ']'


ERRMAP = {'UndefinedPhase': 'UndefinedPhase', 'RuntimeError': 'RuntimeError', 'AttributeError': 'AttributeError',
          'IndexError': 'IndexError', 'KeyError': 'KeyError', 'TypeError': 'TypeError', 'ValueError': 'ValueError'}


class Corrupt(Exception):
    pass


def row_objects(s):
    d = s._imol.data
    return list(d.rows) if hasattr(d, 'rows') else [d]


class Universe:
    """The real objects of one case: the streams, the phase views handed out, the snapshots."""

    def __init__(self):
        self.S = []
        self.handles = []
        self.snaps = []
        self.snap_obs = []
        self.solver = None          # what the last vle/lle/sle accessor returned
        self.ctxs = []              # temporary(...) context objects
        self.ctx_obs = []           # what the stream showed when the context was last entered (or created)
        self.ctx_k = []
        use_chems(3)

    # ---- observation (real objects only) ---------------------------------------
    def kind(self, k):
        t = type(self.S[k])
        if t is tmo.Stream: return 'S'
        if t is tmo.MultiStream: return 'M'
        return '?'

    def obs(self, k):
        """(kind, phases, {phase: [Fraction]*N}, T, P) through the public API."""
        s = self.S[k]
        kd = self.kind(k)
        phases = tuple(s.phases)
        rows = {}
        if kd == 'M':
            for p in phases:
                rows[p] = [Fraction(float(s.imol[p, c])) for c in CHEMS]
        else:
            rows[phases[0]] = [Fraction(float(s.imol[c])) for c in CHEMS]
        return (kd, phases, rows, Fraction(float(s.T)), Fraction(float(s.P)))

    def obs_all(self):
        return [self.obs(k) for k in range(len(self.S))]

    def shares(self, j, k, views=True):
        """stream j shares a row object, the thermal condition, the indexer or (views) the view dict with stream k"""
        a, b = self.S[j], self.S[k]
        if a._imol is b._imol or a._thermal_condition is b._thermal_condition: return True
        da, db = getattr(a, '_streams', None), getattr(b, '_streams', None)
        if views and da is not None and da is db: return True
        rb = row_objects(b)
        return any(x is y for x in row_objects(a) for y in rb)

    def show(self):
        try:
            S = self.S
            parts = []
            for k, s in enumerate(S):
                kd, phases, rows, T, P = self.obs(k)
                def cls(f):
                    for j in range(len(S)):
                        if f(S[j]): return str(j)
                    return '-'
                rk = row_objects(s)
                def same_rows(o):
                    ro = row_objects(o)
                    return len(ro) == len(rk) and all(x is y for x, y in zip(ro, rk))
                dk = getattr(s, '_streams', None)
                ids = '/'.join([cls(lambda o: o._imol is s._imol), cls(same_rows),
                                cls(lambda o: o._thermal_condition is s._thermal_condition),
                                cls(lambda o: (o is s) if dk is None else (getattr(o, '_streams', None) is dk))])
                cache = []
                if kd == 'M':
                    for p in sorted(s._streams):
                        v = s._streams[p]
                        idx = [i for i, h in enumerate(self.handles) if h is v]
                        cache.append(f'{p}>h{idx[0]}' if idx else f'{p}>?')
                parts.append(f's{k}:k={kd} ph=' + ','.join(phases) + ' rows=' + ';'.join(rowstr(rows[p]) for p in phases)
                             + f' T={frac(T)} P={frac(P)} id={ids} cache=' + ','.join(cache))
            hs = []
            for i, h in enumerate(self.handles):
                at = '-'
                for k, s in enumerate(S):
                    for p, r in zip(tuple(s.phases), row_objects(s)):
                        if h._imol.data is r: at = f'{k}.{p}'; break
                    if at != '-': break
                tc = '-'
                for k, s in enumerate(S):
                    if h._thermal_condition is s._thermal_condition: tc = str(k); break
                vals = [Fraction(float(h.imol[c])) for c in CHEMS]
                hs.append(f'h{i}:{h.phase}@{at}:tc{tc}:{rowstr(vals)}')
            parts.append('hs=' + '|'.join(hs))
            return ' || '.join(parts)
        except Exception as e:
            raise Corrupt(f'{type(e).__name__}: {e}')

    def nonempty(self, o):
        kd, phases, rows, T, P = o
        return [p for p in phases if any(rows[p])]

    # ---- operations --------------------------------------------------------------
    def apply(self, line):
        t = line.split(' ')
        op = t[0]
        S = self.S
        self.solver = None
        if op == 'chems':
            if S: raise ValueError('chems after the first stream')
            use_chems(int(t[1]))
            return
        if op == 'new':
            T, P = float(Fraction(t[3])), float(Fraction(t[4]))
            if t[1] == 'S':
                fl = [float(Fraction(x)) for x in t[5].split(',')]
                S.append(tmo.Stream(None, phase=t[2], T=T, P=P, thermo=THERMOS[0], **{c: v for c, v in zip(CHEMS, fl)}))
            else:
                phases = tuple(t[2].split(','))
                kw = {}
                if t[5] != '-':
                    for part in t[5].split(';'):
                        p, vals = part.split(':')
                        kw[p] = [(c, float(Fraction(v))) for c, v in zip(CHEMS, vals.split(','))]
                S.append(tmo.MultiStream(None, phases=phases, T=T, P=P, thermo=THERMOS[0], **kw))
            return
        if op in ('enter', 'exit'):
            c = int(t[1])
            ctx = self.ctxs[c]
            if op == 'enter':
                self.ctx_obs[c] = self.obs(self.ctx_k[c])
                ctx.__enter__()
            else:
                ctx.__exit__(None, None, None)
            return
        if op in ('wview', 'wvT', 'wvP', 'vphase', 'hphases', 'hvle', 'hlle', 'hsle'):
            h = self.handles[int(t[1])]
            if op == 'wview': h.imol[CHEMS[int(t[2])]] = float(Fraction(t[3]))
            elif op == 'wvT': h.T = float(Fraction(t[2]))
            elif op == 'wvP': h.P = float(Fraction(t[2]))
            elif op == 'vphase': h.phase = t[2]
            elif op == 'hphases': h.phases = tuple(t[2].split(','))
            elif op == 'hvle': h.vle
            elif op == 'hlle': h.lle
            else: h.sle
            return
        s = S[int(t[1])]
        if op == 'sphases':
            labels = t[2].split(',')
            form = t[3] if len(t) > 3 else 'tuple'
            if form == 'tuple': s.phases = tuple(labels)
            elif form == 'list': s.phases = list(labels)
            elif form == 'set': s.phases = set(labels)
            elif form == 'str': s.phases = ''.join(labels)
            elif form == 'gen': s.phases = (x for x in labels)
            else: raise ValueError('unknown container ' + form)
        elif op == 'sphase':
            s.phase = '' if t[2] == '-' else t[2]
        elif op == 'reduce':
            s.reduce_phases()
        elif op == 'asstream':
            s.as_stream()
        elif op == 'vle':
            self.solver = s.vle
        elif op == 'lle':
            self.solver = s.lle
        elif op == 'sle':
            self.solver = s.sle
        elif op == 'empty':
            s.empty()
        elif op == 'view':
            v = s[t[2]]
            if not any(h is v for h in self.handles) and not any(v is x for x in S):
                self.handles.append(v)
        elif op == 'iter':
            for v in list(s):
                if not any(h is v for h in self.handles) and not any(v is x for x in S):
                    self.handles.append(v)
        elif op == 'wpar':
            if t[2] == '-':
                s.imol[CHEMS[int(t[3])]] = float(Fraction(t[4]))
            else:
                s.imol[t[2], CHEMS[int(t[3])]] = float(Fraction(t[4]))
        elif op == 'wT':
            s.T = float(Fraction(t[2]))
        elif op == 'wP':
            s.P = float(Fraction(t[2]))
        elif op == 'save':
            self.snaps.append(s.get_data())
            self.snap_obs.append(self.obs(int(t[1])))
        elif op == 'restore':
            s.set_data(self.snaps[int(t[2])])
        elif op in ('tmp', 'with'):
            kw = {}
            if t[2] != '-': kw['T'] = float(Fraction(t[2]))
            if t[3] != '-': kw['P'] = float(Fraction(t[3]))
            if op == 'tmp':
                self.ctxs.append(s.temporary(**kw))
                self.ctx_obs.append(self.obs(int(t[1])))
                self.ctx_k.append(int(t[1]))
            else:
                with s.temporary(**kw) as inner:
                    self.with_inner = (inner is s, float(s.T), float(s.P))
        elif op == 'unlink':
            s.unlink()
        elif op == 'link':
            s.link_with(S[int(t[2])], flow=(t[3] == '1'), TP=(t[4] == '1'))
        elif op == 'copylike':
            s.copy_like(S[int(t[2])])
        elif op == 'mix':
            s.mix_from([S[int(j)] for j in t[2].split(',')], energy_balance=False)
        elif op == 'thermo':
            s._reset_thermo(THERMOS[int(t[2])])
        elif op == 'proxy':
            S.append(s.proxy())
        else:
            raise ValueError('unknown op ' + line)

    # ---- the property, on the real objects ---------------------------------------
    def target_of(self, line, pre):
        """The phase set a conversion asks for (None when the op has no explicit target)."""
        t = line.split(' ')
        op = t[0]
        k, phases = pre[0], pre[1]
        if op == 'sphases': return set(t[2].split(','))
        if op == 'sphase':
            if k == 'S': return None                 # relabelling a single-phase stream: a deliberate phase change
            return set('l' if t[2] == '-' else t[2])
        if op in ('vle', 'lle', 'sle'):
            ext = {'vle': ('g', 'l'), 'lle': ('L', 'l'), 'sle': ('s', 'l')}[op]
            return set(ext) | (set(phases) if k == 'M' else set())
        return None

    def judge_conversion(self, line, k, pre, post, err):
        """Failures of the conversion clauses of C12 for one op; `post` is None when the object is unusable."""
        op = line.split(' ')[0]
        out = []
        k0, ph0, rows0, T0, P0 = pre
        ne0 = [p for p in ph0 if any(rows0[p])]
        target = self.target_of(line, pre)
        in_pre = target is not None and all((p in target) or (swap(p) in target) for p in ne0)
        s = self.S[k]
        if post is None:
            out.append(('failed-conversion-corrupts',
                        f'`{line}` raised {err} and left the stream unusable (type {type(s).__name__}, '
                        f'indexer {type(s._imol).__name__})'))
            if in_pre:
                out.append((f'raises-in-precondition:{k0}',
                            f'`{line}` raised {err} although the target {sorted(target)} contains every non-empty phase {ne0}'))
            return out
        k1, ph1, rows1, T1, P1 = post
        tot0 = [sum(rows0[p][i] for p in ph0) for i in range(N)]
        tot1 = [sum(rows1[p][i] for p in ph1) for i in range(N)]
        if tot0 != tot1:
            out.append((f'{op}/totals-changed', f'`{line}` changed the per-chemical totals {tot0} -> {tot1}'))
        if (T0, P0) != (T1, P1):
            out.append((f'{op}/TP-changed', f'`{line}` changed T,P {(T0, P0)} -> {(T1, P1)}'))
        if err is not None:
            if (k0, ph0, rows0) != (k1, ph1, rows1):
                out.append(('failed-conversion-corrupts',
                            f'`{line}` raised {err} but changed the stream: {k0}{ph0} -> {k1}{ph1}'))
            if in_pre:
                out.append((f'raises-in-precondition:{k0}',
                            f'`{line}` raised {err} although the target {sorted(target)} contains every non-empty phase {ne0}'))
            return out
        if op == 'sphase' and k0 == 'S':
            return out
        # rows: each non-empty phase's material stays in that phase, case-folded only when the exact label is absent
        if op in ('reduce', 'asstream') and not all((p in ph1) or (swap(p) in ph1) for p in ne0):
            # "collapsing to the phases actually present": no non-empty phase may lose its place
            out.append((f'{op}/phase-dropped', f'`{line}`: non-empty phases {ne0} but phases afterwards are {ph1}'))
        if all((p in ph1) or (swap(p) in ph1) for p in ne0):
            want = {q: [Fraction(0)] * N for q in ph1}
            for p in ne0:
                q = p if p in ph1 else swap(p)
                want[q] = [a + b for a, b in zip(want[q], rows0[p])]
            if want != {q: rows1[q] for q in ph1}:
                out.append((f'{op}/row-moved', f'`{line}`: material did not stay in its phase: {rows0} -> {rows1}'))
        if target is not None and op == 'sphases' and set(ph1) != target:
            out.append((f'{op}/wrong-phase-set', f'`{line}`: phases afterwards are {ph1}'))
        return out

    def judge_reseat(self, line, pre_all, post_all, err):
        """Clauses for unlink / link / copylike / mix / thermo / proxy (only when the op did not raise)."""
        t = line.split(' ')
        op, k = t[0], int(t[1])
        out = []
        if err is not None or post_all is None: return out
        pre, post = pre_all[k], post_all[k]
        def totals(o): return [sum(o[2][p][i] for p in o[1]) for i in range(N)]
        def gathered(labels, srcs):
            want = {q: [Fraction(0)] * N for q in labels}
            for p, vals in srcs:
                q = dest(labels, p)
                if q is None:
                    if any(vals): return None
                    continue
                want[q] = [a + b for a, b in zip(want[q], vals)]
            return want
        if op in ('unlink', 'thermo'):
            if pre != post:
                out.append((f'{op}/contents-changed', f'`{line}` changed the stream: {pre} -> {post}'))
            if op == 'unlink' and any(self.shares(j, k, views=False) for j in range(len(self.S)) if j != k):
                out.append(('unlink/still-shared', f'after `{line}` the stream still shares data with another stream'))
        elif op == 'link':
            j = int(t[2])
            src = pre_all[j]
            exp_rows = src[2] if t[3] == '1' else pre[2]
            exp_TP = (src[3], src[4]) if t[4] == '1' else (pre[3], pre[4])
            if post[1] != pre[1] or post[2] != exp_rows or (post[3], post[4]) != exp_TP:
                out.append(('link/mismatch', f'after `{line}` the receiver shows {post} (source {src}, before {pre})'))
        elif op == 'copylike':
            src = pre_all[int(t[2])]
            want = gathered(post[1], [(p, src[2][p]) for p in src[1]])
            if want is None or want != post[2] or (post[3], post[4]) != (src[3], src[4]):
                out.append(('copylike/mismatch', f'after `{line}` the receiver shows {post} where the source was {src}'))
        elif op == 'mix':
            js = [int(x) for x in t[2].split(',')]
            tot = [sum(totals(pre_all[j])[i] for j in js) for i in range(N)]
            if totals(post) != tot:
                out.append(('mix/totals', f'after `{line}` the receiver holds {totals(post)}, the inlets held {tot}'))
            if post[3] != pre[3]:
                out.append(('mix/TP-changed', f'`{line}` (energy_balance=False) changed T'))
        elif op == 'proxy':
            if post_all[-1] != pre or post != pre:
                out.append(('proxy/mismatch', f'after `{line}` the proxy shows {post_all[-1]}, the original {post} (before {pre})'))
        return out

    def probe_views(self, k, ci=0):
        """Every cached phase view must be live: same numbers as the parent's row for that phase, writes through
        either side visible on the other, shared T and P.  Probes write and undo (exact)."""
        s = self.S[k]
        if type(s) is not tmo.MultiStream: return None
        for p in sorted(s._streams):
            v = s._streams[p]
            try:
                c = CHEMS[ci % N]
                old = float(s.imol[p, c])
            except Exception as e:
                return f"cached view {p!r} has no row in the parent any more ({type(e).__name__})"
            if float(v.imol[c]) != old:
                return f"cached view {p!r} shows {float(v.imol[c])} for {c} where the parent has {old}"
            s.imol[p, c] = old + 1.0
            seen = float(v.imol[c])
            v.imol[c] = old
            back = float(s.imol[p, c])
            s.imol[p, c] = old
            if seen != old + 1.0:
                return f"a write through the parent at phase {p!r} is not visible through the cached view"
            if back != old:
                return f"a write through the cached view {p!r} is not visible in the parent"
            T = float(s.T)
            if float(v.T) != T or float(v.P) != float(s.P):
                return f"cached view {p!r} has different T/P than the parent"
            s.T = T + 1.0
            seenT = float(v.T)
            v.T = T
            backT = float(s.T)
            s.T = T
            if seenT != T + 1.0 or backT != T:
                return f"cached view {p!r} does not share the thermal condition of the parent"
            # the same liveness through the view's mass accessor (a derived view over the same row): the
            # accessor is touched as soon as the view exists, so a re-attachment that leaves it wrapping a
            # discarded row shows here
            try:
                mw = float(getattr(s.chemicals, c).MW)
                m_view = float(v.imass[c])
                m_par = float(s.imol[p, c]) * mw
                if abs(m_view - m_par) > 1e-9 * max(1.0, abs(m_par)):
                    return (f"the mass accessor of cached view {p!r} shows {m_view} kg/hr of {c} where the parent "
                            f"holds {m_par} kg/hr")
                v.imass[c] = (old + 2.0) * mw
                back = float(s.imol[p, c])
                s.imol[p, c] = old
                if abs(back - (old + 2.0)) > 1e-9 * max(1.0, abs(old) + 2.0):
                    return f"a write through the mass accessor of cached view {p!r} is not visible in the parent"
            except (AttributeError, KeyError):
                pass
        return None

    def probe_solvers(self, k, accessor_result=None):
        """The equilibrium caches of a MultiStream (and the solver an accessor just returned) must be bound to the
        stream's CURRENT indexer, thermal condition and package; otherwise vle()/lle()/sle() work on detached data."""
        s = self.S[k]
        if type(s) is not tmo.MultiStream: return None
        want = (s._imol, s._thermal_condition, s._thermo)
        names = ('indexer', 'thermal condition', 'property package')
        for cname in ('_vle_cache', '_lle_cache', '_sle_cache'):
            c = getattr(s, cname, None)
            if c is None: return f'{cname} is missing'
            for a, b, n in zip(c.args, want, names):
                if a is not b: return f'{cname} is bound to another {n} than the stream'
            v = c.value
            if v is not None and (v._imol is not s._imol or v._thermal_condition is not s._thermal_condition):
                return f'the solver held by {cname} works on another indexer / thermal condition than the stream'
        v = accessor_result
        if v is not None and (v._imol is not s._imol or v._thermal_condition is not s._thermal_condition):
            return 'the solver returned by the accessor works on another indexer / thermal condition than the stream'
        return None

    def probe_mass(self, k, ci=0):
        """The stream's own derived accessors must follow its molar data: imass by phase, F_mass, and a write through
        imass must land in imol (exact restore afterwards).  Tolerance 1e-9 (molecular weights are not dyadic)."""
        s = self.S[k]
        c = CHEMS[ci % N]
        mw = float(getattr(s.chemicals, c).MW)
        mws = [float(getattr(s.chemicals, x).MW) for x in CHEMS]
        def close(a, b): return abs(a - b) <= 1e-9 * max(1.0, abs(a), abs(b))
        multi = type(s) is tmo.MultiStream
        keys = [(p, c) for p in s.phases] if multi else [c]
        total = 0.0
        for p in (s.phases if multi else [None]):
            for x, m in zip(CHEMS, mws):
                total += float(s.imol[p, x] if multi else s.imol[x]) * m
        try:
            if not close(float(s.F_mass), total):
                return 'F_mass', f'F_mass is {float(s.F_mass)} where the molar flows weigh {total}'
            for key in keys:
                mol = float(s.imol[key])
                if not close(float(s.imass[key]), mol * mw):
                    return 'read', f'imass[{key}] is {float(s.imass[key])} where imol gives {mol * mw} kg/hr'
                s.imass[key] = (mol + 2.0) * mw
                back = float(s.imol[key])
                s.imol[key] = mol
                if not close(back, mol + 2.0):
                    return 'write', f'a write through imass[{key}] did not reach imol (imol shows {back}, expected {mol + 2.0})'
        except Exception as e:
            return 'raises', f'the mass accessor raised {type(e).__name__}: {e}'
        return None

    def dict_shared(self, k):
        d = getattr(self.S[k], '_streams', None)
        return d is not None and any(getattr(o, '_streams', None) is d for j, o in enumerate(self.S) if j != k)


def opkind(line):
    return line.split(' ')[0]


def optarget(line):
    t = line.split(' ')
    if t[0] in ('new', 'chems', 'wview', 'wvT', 'wvP', 'vphase', 'hphases', 'hvle', 'hlle', 'hsle', 'enter', 'exit'): return None
    try: return int(t[1])
    except Exception: return None


def run_ops(ops):
    U = Universe()
    outs, failures, dead = [], [], False
    interesting = False
    stale_reported = False
    solver_reported = False
    mass_reported = False
    for i, line in enumerate(ops):
        if dead:
            outs.append('dead'); continue
        op = opkind(line)
        if op == 'chems':
            try:
                U.apply(line); outs.append('chems=' + line.split(' ')[1])
            except Exception as e:
                outs.append('err=' + type(e).__name__)
            continue
        k = optarget(line)
        valid_k = k is not None and 0 <= k < len(U.S)
        pre_all = U.obs_all()
        pre = pre_all[k] if valid_k else None
        apart = [j for j in range(len(U.S)) if valid_k and j != k and not U.shares(j, k)]
        had_views = valid_k and type(U.S[k]) is tmo.MultiStream and len(U.S[k]._streams) > 0
        err = None
        try:
            U.apply(line)
        except Exception as e:
            err = ERRMAP.get(type(e).__name__, type(e).__name__)
        try:
            state = U.show()
            post_all = U.obs_all()
        except Corrupt:
            state, post_all = None, None
        post = post_all[k] if (post_all is not None and valid_k) else None
        def fail(sig, what):
            failures.append({'signature': sig, 'op_index': i, 'what': what})
        if valid_k and op in CONVERSIONS:
            for sig, what in U.judge_conversion(line, k, pre, post, err):
                fail(sig, what)
        elif valid_k and op == 'restore':
            n = int(line.split(' ')[2])
            if n < len(U.snap_obs):
                if err is not None or post is None:
                    fail('restore/raises', f'set_data of snapshot {n} raised {err}: stream had phases {pre[1]} with non-empty '
                                           f'{U.nonempty(pre)}, snapshot has phases {U.snap_obs[n][1]}')
                elif post != U.snap_obs[n]:
                    fail('restore/mismatch', f'set_data(snapshot {n}) gave {post} where get_data saw {U.snap_obs[n]}')
        elif op in ('enter', 'exit') and post_all is not None:
            t_ = line.split(' ')
            c = int(t_[1])
            if c < len(U.ctxs):
                kc = U.ctx_k[c]
                ctx = U.ctxs[c]
                if err is not None:
                    fail('temporary/raises', f'`{line}` raised {err}')
                elif op == 'enter':
                    want = U.ctx_obs[c]
                    got = post_all[kc]
                    wT = Fraction(ctx.T) if ctx.T is not None else want[3]
                    wP = Fraction(ctx.P) if ctx.P is not None else want[4]
                    if got[:3] != want[:3] or (got[3], got[4]) != (wT, wP):
                        fail('temporary/enter', f'`{line}`: the stream shows {got} (before entering {want}, context T={ctx.T} P={ctx.P})')
                elif post_all[kc] != U.ctx_obs[c]:
                    fail('temporary/exit-mismatch', f'`{line}`: the stream is left as {post_all[kc]} where it was {U.ctx_obs[c]} '
                                                    f'when the context was entered')
        elif valid_k and op == 'with':
            if err is not None or post is None:
                fail('temporary/raises', f'`{line}` raised {err}')
            elif post != pre:
                fail('temporary/exit-mismatch', f'`{line}`: the stream is left as {post} where it was {pre} before the with block')
        elif valid_k and op == 'tmp' and post is not None and pre != post:
            fail('tmp/contents-changed', f'`{line}` (creating the context) changed the stream')
        elif valid_k and op in RESEATING:
            for sig, what in U.judge_reseat(line, pre_all, post_all, err):
                fail(sig, what)
        elif op in ('view', 'save', 'wT', 'wP') and post is not None and pre is not None:
            if (pre[0], pre[1], pre[2]) != (post[0], post[1], post[2]):
                fail(f'{op}/contents-changed', f'`{line}` changed the flows or phases')
        if post_all is not None and valid_k and op in CONVERSIONS + ('unlink', 'thermo', 'proxy'):
            for j in apart:
                if pre_all[j] != post_all[j]:
                    fail(f'{op}/other-stream-changed', f'`{line}` changed stream {j}, which shares nothing with stream {k}')
                    break
        if post_all is None:
            outs.append(f'err={err} corrupt')
            dead = True
            continue
        outs.append((f'err={err} ' if err else '') + state)
        if pre is not None and op in CONVERSIONS and (pre[0], pre[1]) != (post[0], post[1]) and U.nonempty(post):
            interesting = True
        if op in RESEATING and err is None and had_views:
            interesting = True
        if valid_k and op == 'iter' and err is None and post is not None:
            s_ = U.S[k]
            subs = list(s_)
            if type(s_) is tmo.MultiStream:
                if len(subs) != len(s_.phases) or not all(v is s_[p] for v, p in zip(subs, s_.phases)):
                    fail('iter/not-the-views', f'`{line}`: iterating the MultiStream does not yield its phase views s[p]')
            elif not (len(subs) == 1 and subs[0] is s_):
                fail('iter/not-the-views', f'`{line}`: iterating a single-phase stream does not yield the stream itself')
        if valid_k and op == 'view' and pre is not None and pre[0] == 'S':
            p_ = line.split(' ')[2]
            if p_.lower() == pre[1][0].lower() and err is not None:
                fail('view/alias-refused', f'`{line}` raised {err}: a single-phase {pre[1][0]!r} stream refuses its own label in the other case')
        if op in ('hphases', 'hvle', 'hlle', 'hsle'):
            try:
                h = U.handles[int(line.split(' ')[1])]
                if type(h) is not tmo.Stream or not isinstance(h._imol._phase, tmo._phase.LockedPhase):
                    fail('view-converted', f'`{line}` turned the phase view into a {type(h).__name__} detached from its parent '
                                           f'(a later parent.phases = ... then leaves it unusable)')
            except IndexError:
                pass
        if not mass_reported:
            for j in range(len(U.S)):
                w = U.probe_mass(j, i)
                if w:
                    mass_reported = True
                    fail('mass-view/' + w[0], f'after `{line}`, stream {j}: {w[1]}')
                    break
        if not solver_reported:
            for j in range(len(U.S)):
                w = U.probe_solvers(j, U.solver if (valid_k and j == k and err is None) else None)
                if w:
                    solver_reported = True
                    fail('stale-solver:' + op, f'after `{line}`, stream {j}: {w}')
                    break
        if not stale_reported:
            for j in range(len(U.S)):
                try:
                    w = U.probe_views(j, i)
                except Exception as e:      # a view that is no longer a single-phase stream over the parent's row
                    w = f'probing the cached views raised {type(e).__name__}: {e}'
                if w:
                    stale_reported = True
                    fail('stale-view/shared-dict' if U.dict_shared(j) else 'stale-view', f'after `{line}`, stream {j}: {w}')
                    break
    return U, outs, failures, interesting


def _has_cancelling(state):
    """some row of some stream is non-empty but sums to zero, or some per-chemical total cancels across phases"""
    try:
        for part in state.split(' || '):
            if 'rows=' not in part: continue
            rows = part.split('rows=')[1].split(' ')[0].split(';')
            vals = [[Fraction(x) for x in r.strip('[]').split(',')] for r in rows]
            for v in vals:
                if any(v) and sum(v) == 0: return True
            for i in range(len(vals[0])):
                col = [v[i] for v in vals]
                if any(col) and sum(col) == 0: return True
    except Exception:
        return False
    return False


# --------------------------------------------------------------------------
# constructor classes: decided by the oracle on the real objects only (no model lines)
# --------------------------------------------------------------------------
# `MultiStream.from_streams` (the given single-phase streams BECOME the phase views) and a MultiStream constructed over
# ONE phase (a state no conversion produces; its snapshot is a one-row MaterialIndexer) are not in the Lean model.
# Their cases carry one line starting with '@'; nothing is sent to the driver.  All flows are dyadic, every comparison
# is exact equality of Fractions (no float tolerance needed: the operations only copy and add dyadic numbers).

def _vals(t):
    return [float(Fraction(x)) for x in t.split(',')]


def run_ctor(case):
    use_chems(3)
    t = case.ops[0].split(' ')
    failures = []
    def fail(sig, what):
        failures.append({'signature': sig, 'op_index': 0, 'what': what})
    def fl(st, key=None):
        return [Fraction(float(st.imol[c] if key is None else st.imol[key, c])) for c in CHEMS]
    try:
        if t[0] == '@fromstreams':
            # @fromstreams <T> <P> <p:f0,f1,f2;...>   streams in the GIVEN order
            T, P = float(Fraction(t[1])), float(Fraction(t[2]))
            parts = [x.split(':') for x in t[3].split(';')]
            subs = [tmo.Stream(None, phase=p, T=T + 5 * i, P=P, thermo=THERMOS[0], **dict(zip(CHEMS, _vals(v))))
                    for i, (p, v) in enumerate(parts)]
            want = {p: [Fraction(x) for x in _vals(v)] for p, v in parts}
            ms = tmo.MultiStream.from_streams(subs)
            if tuple(ms.phases) != tuple(sorted(want)):
                fail('fromstreams/phases', f'`{case.ops[0]}`: phases are {ms.phases}')
            for st, (p, v) in zip(subs, parts):
                if fl(ms, p) != want[p]:
                    fail('fromstreams/rows', f'`{case.ops[0]}`: phase {p!r} of the MultiStream holds {fl(ms, p)} where the stream '
                                             f'given for that phase holds {want[p]}')
                    break
                if ms[p] is not st:
                    fail('fromstreams/views', f'`{case.ops[0]}`: ms[{p!r}] is not the stream that was given for that phase'); break
                c = CHEMS[0]
                old = float(ms.imol[p, c])
                ms.imol[p, c] = old + 1.0
                seen = float(st.imol[c])
                st.imol[c] = old
                back = float(ms.imol[p, c])
                if seen != old + 1.0 or back != old:
                    fail('fromstreams/stale-view', f'`{case.ops[0]}`: writes at phase {p!r} are not shared between the MultiStream and '
                                                   f'the stream given for that phase'); break
                if float(st.T) != float(ms.T) or float(st.P) != float(ms.P):
                    fail('fromstreams/TP', f'`{case.ops[0]}`: the stream of phase {p!r} does not share T/P with the MultiStream'); break
        elif t[0] == '@onephase':
            # @onephase <p> <T> <P> <f0,f1,f2> <self|S:<q>|M:<q1,q2>> <get|tmp>
            p, T, P = t[1], float(Fraction(t[2])), float(Fraction(t[3]))
            v = _vals(t[4])
            m = tmo.MultiStream(None, phases=(p,), T=T, P=P, thermo=THERMOS[0], **{p: list(zip(CHEMS, v))})
            want = ((p,), [Fraction(x) for x in v], Fraction(T), Fraction(P))
            if t[6] == 'tmp':
                with m.temporary(T=T + 25.0):
                    m.imol[p, CHEMS[1]] = 64.0
                tgt = m
            else:
                d = m.get_data()
                if t[5] == 'self':
                    tgt = m
                    m.imol[p, CHEMS[1]] = 64.0; m.T = T + 25.0
                elif t[5].startswith('S:'):
                    tgt = tmo.Stream(None, phase=t[5][2:], T=T + 10, P=P + 1000, thermo=THERMOS[0], **{CHEMS[2]: 2.0})
                else:
                    q = tuple(t[5][2:].split(','))
                    tgt = tmo.MultiStream(None, phases=q, T=T + 10, P=P + 1000, thermo=THERMOS[0], **{q[0]: [(CHEMS[2], 2.0)]})
                tgt.set_data(d)
            ph = tuple(tgt.phases)
            got = (ph, fl(tgt, p) if type(tgt) is tmo.MultiStream else fl(tgt), Fraction(float(tgt.T)), Fraction(float(tgt.P)))
            if got != want:
                fail('onephase/restore-mismatch', f'`{case.ops[0]}`: restoring the snapshot of a one-phase MultiStream gave {got} '
                                                  f'where it held {want}')
    except Exception as e:
        fail(t[0][1:] + '/raises', f'`{case.ops[0]}` raised {type(e).__name__}: {e}')
    return ImplResult(model_in=[], outs=[], failures=failures, tags=['ctor:' + t[0][1:]], nontrivial=tuple(case.ops))


def gen_ctor_case(rng):
    use_chems(3)
    T, P = gen_T(rng), gen_P(rng)
    if rng.random() < 0.5:
        phases = rng.sample(PHASES, rng.choice([2, 2, 3, 3, 4]))          # given order: random, usually not sorted
        parts = ';'.join(p + ':' + ','.join(fr(x) for x in gen_row(rng)) for p in phases)
        return Case([f'@fromstreams {T} {P} {parts}'], {})
    p = rng.choice(PHASES)
    row = ','.join(fr(x) for x in gen_row(rng))
    r = rng.random()
    if r < 0.3: tgt = 'self'
    elif r < 0.6: tgt = 'S:' + rng.choice(PHASES)
    else: tgt = 'M:' + ','.join(sorted(rng.sample(PHASES, 2)))
    how = 'tmp' if rng.random() < 0.25 else 'get'
    return Case([f'@onephase {p} {T} {P} {row} {tgt} {how}'], {})


def run_impl(case: Case) -> ImplResult:
    if case.ops and case.ops[0].startswith('@'):
        return run_ctor(case)
    U, outs, failures, interesting = run_ops(case.ops)
    tags = sorted({opkind(l) for l, o in zip(case.ops, outs) if o != 'dead' and not o.startswith('err=')})
    tags += sorted({'err:' + o.split(' ')[0][4:] for o in outs if o.startswith('err=')})
    for l, o in zip(case.ops, outs):
        if opkind(l) in CONVERSIONS and not o.startswith('err=') and o != 'dead':
            tags.append('conv:' + opkind(l))
        t = l.split(' ')
        if t[0] == 'sphases': tags.append('form:' + (t[3] if len(t) > 3 else 'tuple'))
        if t[0] == 'chems': tags.append('chems:' + t[1])
        if t[0] in ('hphases', 'hvle', 'hlle', 'hsle') and o != 'dead': tags.append('asked-of-view:' + t[0] + (':refused' if o.startswith('err=') else ':accepted'))
        if t[0] in ('new', 'wpar', 'wview') and any(x.startswith('-') and len(x) > 1
                                                     for x in t[-1].replace(';', ',').replace(':', ',').split(',')):
            tags.append('input:negative-flow')
    if any('rows=' in o and _has_cancelling(o) for o in outs): tags.append('state:cancelling-row')
    return ImplResult(model_in=list(case.ops), outs=outs, failures=failures, tags=tags,
                      nontrivial=(tuple(case.ops) if interesting else None))


# --------------------------------------------------------------------------
# generation
# --------------------------------------------------------------------------

def dy(rng, zero=0.3, neg=0.12):
    """a signed dyadic flow (mostly positive)"""
    if rng.random() < zero: return 0.0
    x = rng.randrange(1, 257) / (1 << rng.randrange(0, 4))
    return -x if rng.random() < neg else x


def gen_row(rng):
    """flows of one phase; sometimes a row that is non-empty but sums to zero"""
    r = rng.random()
    if r < 0.08 and N >= 2:
        x = rng.randrange(1, 65) / (1 << rng.randrange(0, 3))
        v = [0.0] * N
        i, j = rng.sample(range(N), 2)
        v[i], v[j] = x, -x
        return v
    return [dy(rng) for _ in range(N)]


def gen_T(rng):
    return str(Fraction(rng.randrange(250 * 4, 450 * 4), 4))


def gen_P(rng):
    return str(rng.randrange(50, 400) * 1000)


def gen_new(rng, multi=None):
    T, P = gen_T(rng), gen_P(rng)
    if multi is False or (multi is None and rng.random() < 0.35):
        p = rng.choice(PHASES if rng.random() < 0.5 else ['l', 'g', 'l', 's'])
        fl = gen_row(rng)
        return f'new S {p} {T} {P} ' + ','.join(fr(x) for x in fl)
    m = rng.choice([2, 2, 3, 3, 4, 5])
    phases = sorted(rng.sample(PHASES, m)) if rng.random() < 0.6 else rng.choice([['g', 'l'], ['g', 'l', 's'], ['L', 'g', 'l']])
    parts = []
    rows = {}
    for p in phases:
        if rng.random() < 0.55:
            rows[p] = gen_row(rng)
    if len(rows) >= 2 and rng.random() < 0.12:
        # one chemical whose total cancels across two phases
        a, b = rng.sample(sorted(rows), 2)
        i = rng.randrange(N)
        x = rng.randrange(1, 65) / 2
        rows[a][i], rows[b][i] = x, -x
    for p in phases:
        if p in rows: parts.append(p + ':' + ','.join(fr(x) for x in rows[p]))
    return f'new M {",".join(phases)} {T} {P} ' + (';'.join(parts) if parts else '-')


def gen_target(rng, U, k, valid=0.85):
    """a target phase set; mostly one that contains every non-empty phase up to case"""
    ne = U.nonempty(U.obs(k))
    if rng.random() < valid:
        base = set()
        for p in ne:
            base.add(p if rng.random() < 0.7 else alt(p))
        extra = [p for p in PHASES if p not in base]
        rng.shuffle(extra)
        n = rng.choice([0, 1, 1, 2, 2, 3])
        base |= set(extra[:n])
        if not base: base.add(rng.choice(PHASES))
        return sorted(base)
    return sorted(rng.sample(PHASES, rng.choice([1, 2, 2, 3])))


def keys_resolve(s):
    d = getattr(s, '_streams', None)
    if not d: return True
    if type(s) is not tmo.MultiStream: return False
    return all(p in s._imol._phase_indexer for p in d)


def rows_shared(U, k):
    s = U.S[k]
    rk = row_objects(s)
    return any(o._imol is not s._imol and any(x is y for x in row_objects(o) for y in rk)
               for j, o in enumerate(U.S) if j != k)


def compat(a, b):
    return ''.join(x.lower() for x in a) == ''.join(x.lower() for x in b)


def foreign_share(U, k, j):
    a, b = U.S[k], U.S[j]
    if a._thermo is b._thermo: return False
    rk = row_objects(a)
    return any(x is y for x in row_objects(b) for y in rk)


def alias_key_clash(U, s, more):
    return any(p not in s.phases and p in more
               for o in U.S if o._imol is s._imol for p in (getattr(o, '_streams', None) or ()))


def in_model(U, line):
    """the guards of the model (`outOfModel`), evaluated on the real objects"""
    t = line.split(' ')
    op = t[0]
    S = U.S
    if op == 'unlink':
        return keys_resolve(S[int(t[1])])
    if op == 'thermo':
        s = S[int(t[1])]
        if THERMOS[int(t[2])] is s._thermo: return True
        return keys_resolve(s) and not any(o._imol is s._imol for o in S if o is not s)
    if op == 'link':
        a, b = S[int(t[1])], S[int(t[2])]
        if type(a) is not type(b): return True                      # raises RuntimeError, mirrored
        return (type(a) is tmo.MultiStream and (t[3] == '0' or a.phases == b.phases)
                and not any(o._imol is a._imol for o in S if o is not a))
    if op == 'copylike':
        k, j = int(t[1]), int(t[2])
        a, b = S[k], S[j]
        if a._imol is b._imol or type(a) is not tmo.MultiStream: return True
        if foreign_share(U, k, j): return False
        if type(b) is tmo.MultiStream:
            need = a.phases != b.phases and not compat(a.phases, b.phases)
        else:
            need = b.phase not in a._imol._phase_indexer
        return not (need and (rows_shared(U, k) or alias_key_clash(U, a, b.phases)))
    if op == 'mix':
        k = int(t[1])
        a = S[k]
        livej = [int(j) for j in t[2].split(',') if not S[int(j)].isempty()]
        if any(foreign_share(U, k, j) for j in livej): return False
        if type(a) is not tmo.MultiStream: return True
        other = {p for j in livej for p in S[j].phases}
        need = any(p not in a._imol._phase_indexer for p in other)
        return not (need and (rows_shared(U, k) or alias_key_clash(U, a, other)))
    return True


def gen_op(rng, U):
    nS = len(U.S)
    # prefer multi-phase streams that have views
    weights = [3 if (type(s) is tmo.MultiStream and s._streams) else (2 if type(s) is tmo.MultiStream else 1) for s in U.S]
    k = rng.choices(range(nS), weights)[0]
    s = U.S[k]
    kd = U.kind(k)
    o = U.obs(k)
    phases = o[1]
    multis = [j for j in range(nS) if U.kind(j) == 'M']
    kinds = ['sphases', 'sphase', 'reduce', 'asstream', 'vle', 'lle', 'sle', 'view', 'wview', 'wpar',
             'wT', 'wP', 'wvT', 'wvP', 'save', 'restore', 'empty', 'vphase',
             'unlink', 'link', 'copylike', 'mix', 'thermo', 'proxy', 'new', 'hconv', 'iter', 'tmp', 'enter', 'exit', 'with']
    hv = 1 if U.handles else 0
    w = [14, 5, 4, 3, 3, 3, 3, 16 if kd == 'M' else 2, 8 * hv, 12,
         3, 2, 3 * hv, 1 * hv, 5, 7 if U.snaps else 0, 1, 1 * hv,
         6, 7 if len(multis) >= 2 and kd == 'M' else 0, 8, 7, 4, (2 if nS < 5 else 0), (1 if nS < 4 else 0),
         4 * hv, 3, 4 if len(U.ctxs) < 3 else 0, 6 if U.ctxs else 0, 6 if U.ctxs else 0, 2]
    op = rng.choices(kinds, w)[0]
    if op == 'new': return gen_new(rng)
    if op == 'iter': return f'iter {k}'
    if op in ('tmp', 'with'):
        T = gen_T(rng) if rng.random() < 0.7 else '-'
        P = gen_P(rng) if rng.random() < 0.5 else '-'
        return f'{op} {k} {T} {P}'
    if op in ('enter', 'exit'): return f'{op} {rng.randrange(len(U.ctxs))}'
    if op == 'hconv':
        h = rng.randrange(len(U.handles))
        r = rng.random()
        if r < 0.45:
            own = U.handles[h].phase if type(U.handles[h]) is tmo.Stream and U.handles[h].phase in PHASES else 'l'
            labels = [own] if rng.random() < 0.3 else sorted(rng.sample(PHASES, rng.choice([1, 2, 2, 3])))
            return f'hphases {h} ' + ','.join(labels)
        return rng.choice(['hvle', 'hlle', 'hsle']) + f' {h}'
    if op == 'sphases':
        labels = gen_target(rng, U, k)
        form = rng.choice(['tuple', 'tuple', 'list', 'set', 'str', 'gen'])
        if form != 'set' and rng.random() < 0.2:
            labels = labels + [rng.choice(labels)]           # a duplicate label
            rng.shuffle(labels)
        elif form != 'tuple' and rng.random() < 0.5:
            rng.shuffle(labels)                              # unsorted
        return f'sphases {k} ' + ','.join(labels) + ('' if form == 'tuple' else ' ' + form)
    if op == 'sphase':
        if kd == 'S':
            return f'sphase {k} ' + rng.choice(PHASES)
        r = rng.random()
        if r < 0.1: return f'sphase {k} -'
        if r < 0.5:
            ne = U.nonempty(o)
            if len(ne) == 1: return f'sphase {k} ' + (ne[0] if rng.random() < 0.7 else alt(ne[0]))
            return f'sphase {k} ' + rng.choice(PHASES)
        return f'sphase {k} ' + ''.join(gen_target(rng, U, k))
    if op in ('reduce', 'asstream', 'vle', 'lle', 'sle', 'empty', 'save', 'unlink', 'proxy'):
        return f'{op} {k}'
    if op == 'view':
        if rng.random() < 0.8: return f'view {k} ' + rng.choice(phases)
        return f'view {k} ' + rng.choice(PHASES)
    if op == 'wview':
        return f'wview {rng.randrange(len(U.handles))} {rng.randrange(N)} {fr(dy(rng, 0.2))}'
    if op == 'wpar':
        if kd == 'S': return f'wpar {k} - {rng.randrange(N)} {fr(dy(rng, 0.2))}'
        p = rng.choice(phases) if rng.random() < 0.9 else rng.choice(PHASES)
        return f'wpar {k} {p} {rng.randrange(N)} {fr(dy(rng, 0.25))}'
    if op == 'wT': return f'wT {k} ' + gen_T(rng)
    if op == 'wP': return f'wP {k} ' + gen_P(rng)
    if op == 'wvT': return f'wvT {rng.randrange(len(U.handles))} {gen_T(rng)}'
    if op == 'wvP': return f'wvP {rng.randrange(len(U.handles))} {gen_P(rng)}'
    if op == 'restore': return f'restore {k} {rng.randrange(len(U.snaps))}'
    if op == 'vphase':
        h = rng.randrange(len(U.handles))
        own = U.handles[h].phase if type(U.handles[h]) is tmo.Stream and U.handles[h].phase in PHASES else rng.choice(PHASES)
        return f'vphase {h} {own if rng.random() < 0.4 else rng.choice(PHASES)}'
    if op == 'link':
        cands = [j for j in multis if j != k and U.S[j].phases == s.phases]
        if not cands:
            j = rng.choice([j for j in multis if j != k])
            # make the partner's phases equal first (an empty partner can take any phase set)
            return f'sphases {j} ' + ','.join(s.phases) if rng.random() < 0.7 else f'empty {j}'
        j = rng.choice(cands)
        fl, tp = rng.choice([(1, 1), (1, 1), (1, 0), (0, 1), (0, 0)])
        return f'link {k} {j} {fl} {tp}'
    if op == 'copylike':
        j = rng.randrange(nS)
        return f'copylike {k} {j}'
    if op == 'mix':
        m = rng.choice([1, 2, 2, 3])
        js = [rng.randrange(nS) for _ in range(m)]
        return f'mix {k} ' + ','.join(map(str, js))
    if op == 'thermo':
        return f'thermo {k} {rng.randrange(3)}'
    return f'save {k}'


def gen_case(rng, length):
    U = Universe()
    ops = []
    n = rng.choice([3, 3, 3, 2, 4])
    if n != 3:
        ops.append(f'chems {n}')
        U.apply(ops[-1])
    nstreams = rng.choice([2, 2, 3, 3])
    for n in range(nstreams):
        ops.append(gen_new(rng, multi=(True if n == 0 else None)))
        U.apply(ops[-1])
    for _ in range(length):
        try:
            line = gen_op(rng, U)
            if not in_model(U, line): continue
        except Exception:
            break
        ops.append(line)
        try:
            U.apply(line)
        except Exception:
            pass
        try:
            U.show()
        except Corrupt:
            break
    return Case(ops, {})


def grid_cases():
    """every (source representation) x (conversion) pair once, with material in one phase"""
    out = []
    srcs = [f'new S {p} 300 101325 1,2,0' for p in PHASES]
    srcs += [f'new M {a},{b} 300 101325 {a}:1,0,2' for a in PHASES for b in PHASES if a < b]
    srcs += [f'new M {a},{b} 300 101325 {a}:1,0,2;{b}:0,3,1/2' for a in PHASES for b in PHASES if a < b]
    convs = ['reduce 0', 'asstream 0', 'vle 0', 'lle 0', 'sle 0', 'sphases 0 g,l', 'sphases 0 L,l', 'sphases 0 l',
             'sphases 0 L,S,g,l,s', 'sphase 0 l', 'sphase 0 -', 'sphase 0 gl']
    for s in srcs:
        for c in convs:
            out.append(Case([s, 'save 0', c, 'restore 0 0'], {}))
    # every re-seating operation on a two-phase stream with both views cached, against each kind of partner
    a = 'new M g,l 300 101325 l:4,0,0;g:0,2,0'
    partners = ['new M g,l 350 90000 l:1,0,0;g:0,0,5', 'new M L,l,s 360 80000 L:0,1,0;s:0,0,5', 'new S l 320 70000 1,1,1',
                'new S S 320 70000 0,0,2', 'new M g,l 350 90000 -']
    reseats = ['unlink 0', 'link 0 1 1 1', 'link 0 1 1 0', 'link 0 1 0 1', 'copylike 0 1', 'copylike 1 0', 'mix 0 1',
               'mix 0 0,1', 'mix 0 1,1,0', 'thermo 0 1', 'proxy 0', 'mix 1 0']
    for b in partners:
        for r in reseats:
            if r.startswith('link 0 1 1') and b.startswith('new M L,l,s'): continue   # flows linked over other phases: outside the model
            out.append(Case([a, b, 'view 0 l', 'view 0 g', r, 'wpar 0 l 0 7', 'wT 0 333', 'unlink 0', 'wview 0 1 3'], {}))
    return out


def generate(rng, tier, index, nworkers):
    b = budget(tier)
    if index == 0:
        g = grid_cases()
        if tier == 'quick': g = g[::3]
        yield from g
    n = max(1, b['cases'] // nworkers)
    for j in range(n):
        r = rng.random()
        if r < 0.06:
            yield gen_ctor_case(rng)
        elif r < 0.3:
            yield gen_case(rng, rng.randrange(2, 8))
        elif r < 0.85:
            yield gen_case(rng, rng.randrange(8, 20))
        else:
            yield gen_case(rng, 30)


def corpus():
    return [
        # (#7) a phase view obtained before the phase set is extended must stay attached
        Case(['new M g,l 300 101325 l:4,0,0;g:0,2,0', 'view 0 l', 'sphases 0 g,l,s', 'wpar 0 l 0 7', 'wview 0 1 3']),
        Case(['new M g,l 300 101325 l:4,0,0', 'view 0 l', 'view 0 g', 'lle 0', 'wview 0 0 1', 'sle 0', 'wview 1 2 5']),
        # a view under a case-alias key, then the alias becomes a phase of its own
        Case(['new M g,l 300 101325 l:4,0,0', 'view 0 L', 'wview 0 0 2', 'sphases 0 L,g,l', 'wview 0 0 3']),
        # a cached view of a phase that disappears
        Case(['new M g,l,s 300 101325 l:4,0,0', 'view 0 s', 'view 0 l', 'sphases 0 g,l', 'view 0 s', 'sphases 0 g,l,s', 'view 0 s']),
        # (#27) restoring a snapshot that lacks a phase holding material now
        Case(['new S l 300 101325 3,0,0', 'lle 0', 'save 0', 'vle 0', 'wpar 0 g 0 1', 'restore 0 0']),
        Case(['new S g 300 101325 3,0,0', 'save 0', 'sphase 0 l', 'lle 0', 'save 0', 'restore 0 0', 'restore 0 1', 'restore 0 0']),
        Case(['new M L,l 320 90000 L:1,1,1', 'save 0', 'sphases 0 g,s', 'restore 0 0']),
        # an empty single-phase stream may take any phase set; a failed conversion must leave the stream intact
        Case(['new S g 300 101325 0,0,0', 'sphases 0 L,l', 'wpar 0 l 0 1']),
        Case(['new S g 300 101325 1,0,0', 'sphases 0 L,l', 'wT 0 310', 'sphases 0 g,l']),
        Case(['new S S 300 101325 1,0,0', 'vle 0', 'sle 0']),
        # case folding: only when the exact label is absent
        Case(['new M L,l 300 101325 L:1,0,0;l:0,2,0', 'sphases 0 g,l', 'sphases 0 L,g', 'sphases 0 L,l', 'reduce 0']),
        Case(['new M L,S,g 300 101325 L:1,0,0;S:0,2,0', 'reduce 0', 'asstream 0', 'sphases 0 l,s']),
        Case(['new M L,S,g 300 101325 -', 'asstream 0', 'sphases 0 g,l', 'reduce 0']),
        Case(['new M g,l 300 101325 l:1,0,0;g:0,2,0', 'view 0 g', 'sphases 0 g', 'wview 0 0 4', 'wvT 0 350', 'sphases 0 g,l', 'view 0 g']),
        # a snapshot is a copy: later writes must not leak into it
        Case(['new S g 300 101325 3,0,0', 'save 0', 'wpar 0 - 0 5', 'wT 0 350', 'sphase 0 l', 'restore 0 0']),
        Case(['new M g,l 300 101325 l:1,0,0;g:0,2,0', 'save 0', 'wpar 0 l 0 5', 'view 0 l', 'wview 0 1 1', 'restore 0 0']),
        # both liquid labels present: 'l' and 'L' are different rows
        Case(['new M L,l 300 101325 L:1,0,0', 'wpar 0 l 1 2', 'wpar 0 L 2 3', 'view 0 l', 'view 0 L', 'vphase 0 L', 'vphase 1 L']),
        # reduce_phases keeps a place for upper-case phases
        Case(['new M L,s 300 101325 L:0,0,95;s:225/4,0,0', 'reduce 0']),
        Case(['new M L,S,g 300 101325 S:1,0,0', 'asstream 0']),
        # emptiness is "has an entry", not "has positive material": negative and cancelling rows move with their phase
        Case(['new M g,l 300 101325 l:10,0,0;g:-1,1,0', 'sphases 0 g,l,s', 'reduce 0', 'sphases 0 l,g list']),
        Case(['new M L,g,l 300 101325 L:3,-3,0;g:0,0,-2', 'reduce 0', 'asstream 0', 'sphases 0 l,s str']),
        Case(['new S g 300 101325 1,-1,0', 'sphases 0 L,l', 'new M g,l 300 101325 g:2,0,0;l:-2,0,0', 'asstream 1', 'mix 0 1', 'mix 1 0,0']),
        Case(['new M g,l 300 101325 l:4,0,0', 'view 0 l', 'wview 0 0 -4', 'wpar 0 g 0 4', 'save 0', 'sphase 0 g', 'restore 0 0']),
        # phases= takes any iterable of labels
        Case(['new M g,l 300 101325 l:4,0,0;g:0,2,0', 'sphases 0 g,l,s str', 'sphases 0 l,g,l list', 'sphases 0 s,l,g set',
              'sphases 0 L,g,l,l gen', 'sphases 0 l,l list']),
        # the equilibrium caches follow the stream
        Case(['new M g,l 300 101325 l:4,0,0;g:0,2,0', 'vle 0', 'sphases 0 g,l,s', 'vle 0', 'lle 0', 'unlink 0', 'sle 0',
              'new M L,g,l,s 350 90000 -', 'copylike 1 0', 'vle 1']),
        Case(['chems 4', 'new M g,l 300 101325 l:4,0,1,-1;g:0,2,0,0', 'new S s 310 90000 0,0,0,5', 'view 0 l', 'mix 0 0,1', 'copylike 1 0',
              'sphases 1 g,l gen']),
        Case(['chems 2', 'new S l 300 101325 1,-1', 'vle 0', 'reduce 0', 'lle 0', 'asstream 0']),
        # a conversion asked of a phase view is refused (its phase is locked); the view stays attached (C12-10)
        Case(['new M g,l 300 101325 l:10,0,0;g:0,2,0', 'view 0 l', 'hvle 0', 'wpar 0 l 0 5', 'sphases 0 g,l,s', 'hphases 0 g,l',
              'hphases 0 l', 'hphases 0 g', 'hlle 0', 'hsle 0', 'wview 0 1 3']),
        # sub-streams obtained by iteration are the cached views
        Case(['new M g,l,s 300 101325 l:4,0,0;s:0,1,0', 'iter 0', 'sphases 0 g,l', 'wview 1 0 3', 'iter 0', 'wvT 0 350']),
        # indexing a single-phase stream: its own label in either case answers the stream itself
        Case(['new S l 300 101325 1,0,0', 'view 0 L', 'view 0 l', 'view 0 g', 'iter 0', 'new S S 300 101325 0,1,0', 'view 1 s']),
        # a temporary(...) context restores the state the stream had when the with block was ENTERED
        Case(['new S l 300 101325 3,0,0', 'tmp 0 350 -', 'sphases 0 g,l', 'wpar 0 g 1 2', 'wT 0 320', 'enter 0', 'wpar 0 l 0 9',
              'sphases 0 g,l,s', 'exit 0', 'enter 0', 'exit 0']),
        Case(['new M g,l 300 101325 l:4,0,0;g:0,2,0', 'view 0 l', 'tmp 0 - 90000', 'wview 0 0 7', 'wP 0 120000', 'enter 0', 'sphase 0 l',
              'exit 0', 'with 0 400 50000', 'exit 0']),
        # constructors (oracle only): from_streams attaches each given stream to ITS phase; one-phase MultiStream snapshots
        Case(['@fromstreams 300 101325 l:4,0,0;s:0,1,0;g:0,0,2']),
        Case(['@fromstreams 300 101325 l:1,2,0;L:0,0,3']),
        Case(['@onephase l 300 101325 3,0,1 self get']),
        Case(['@onephase S 310 90000 0,2,0 M:g,l get']),
        Case(['@onephase g 320 80000 1,0,0 S:l get']),
        Case(['@onephase l 300 101325 3,0,1 self tmp']),
        # unlink after a link: the views follow the stream to its own copy (4329d3a)
        Case(['new M g,l 300 101325 l:4,0,0;g:0,2,0', 'new M g,l 350 90000 l:1,0,0', 'view 0 l', 'link 0 1 1 1', 'unlink 0',
              'wpar 0 l 0 7', 'wT 0 333']),
        Case(['new M g,l 300 101325 l:4,0,0;g:0,2,0', 'view 0 l', 'view 0 g', 'unlink 0', 'wview 0 0 9', 'wvT 1 400']),
        # link_with must re-seat the cached views (C12-5)
        Case(['new M g,l 300 101325 l:4,0,0;g:0,2,0', 'new M g,l 350 90000 l:1,0,0;g:0,0,5', 'view 0 l', 'link 0 1 1 1',
              'wpar 1 l 0 7', 'wT 1 333']),
        Case(['new M g,l 300 101325 l:4,0,0', 'new M g,l 350 90000 l:1,0,0', 'view 0 l', 'link 0 1 0 1', 'wT 1 333']),
        # phases grow in place under cached views: copy_like and mix_from
        Case(['new M g,l 300 101325 l:4,0,0;g:0,2,0', 'new M L,l,s 360 80000 L:0,1,0;s:0,0,5;l:1,0,0', 'view 0 l', 'view 0 g',
              'copylike 0 1', 'wview 0 0 3', 'mix 0 0,1', 'view 0 L']),
        Case(['new M g,l 300 101325 l:4,0,0;g:0,2,0', 'new S S 320 70000 0,0,2', 'view 0 l', 'mix 0 0,1', 'view 0 s',
              'copylike 0 1', 'wview 1 0 1']),
        Case(['new S l 300 101325 1,0,0', 'new M g,l 350 90000 l:1,0,0;g:0,0,5', 'copylike 0 1', 'view 0 g', 'mix 0 1,1', 'mix 1 0,0']),
        # _reset_thermo gives the indexer new rows
        Case(['new M g,l 300 101325 l:4,0,0;g:0,2,0', 'view 0 l', 'thermo 0 1', 'wview 0 0 2', 'thermo 0 1', 'thermo 0 0',
              'new S g 300 101325 1,1,1', 'mix 0 0,1', 'copylike 1 0']),
        # a proxy shares indexer, thermal condition and view dict
        Case(['new M g,l 300 101325 l:4,0,0;g:0,2,0', 'view 0 l', 'proxy 0', 'view 1 g', 'wpar 1 l 0 2', 'wT 1 350',
              'new S s 300 101325 0,1,0', 'mix 0 0,2', 'view 1 s']),
    ]


def search(case, rng, budget_s):
    """Look for a property failure on the real code near a disagreement: random continuations."""
    import time
    t0 = time.time()
    while time.time() - t0 < budget_s:
        U = Universe()
        ops = list(case.ops)
        try:
            for l in ops:
                try: U.apply(l)
                except Exception: pass
            U.show()
            for _ in range(rng.randrange(1, 8)):
                l = gen_op(rng, U)
                if not in_model(U, l): continue
                ops.append(l)
                try: U.apply(l)
                except Exception: pass
                U.show()
        except Exception:
            pass
        c = Case(ops, {})
        try:
            res = run_impl(c)
        except Exception:
            return None
        if res.failures: return c
    return None
