"""
C18 — flowsheet connections stay mutually consistent under every rewiring operation.

Adapter for thermosteam/network.py (AbstractUnit / AbstractStream / StreamSequence),
generator of rewiring histories, and the docking invariant evaluated on the real
objects.  The Lean model is lean/ThermoVerif/Model/Network.lean.
"""
from __future__ import annotations
import itertools, random, warnings
from harness.core import Case, ImplResult

PID = 'C18'
LEAN_MODULES = ['ThermoVerif.Props.C18']
RULE = ('histories of rewiring operations over a universe of AbstractUnit subclasses with fixed and variable '
        'port counts and AbstractStreams; generated adaptively on the real objects so that ~90% of operations '
        'satisfy the stated preconditions; a case is non-trivial when at least one operation changed the '
        'connectivity; distinct = distinct op sequences')
ASSUMPTIONS = [
    'Python object identity is modelled by ids; list semantics of `in`, `index`, slice assignment as in CPython',
    'preconditions of the property are evaluated by the model (pre= flag) at primitive list-operation level',
    'negative indices, stepped slices and auxiliary/superposition streams are not generated',
]
TRUSTED = ['Lean 4.33 kernel', 'correspondence harness harness/props/c18.py + Driver/C18.lean',
           'generator reach (see histogram)']
EXHAUSTIVE = {'quick': False, 'thorough': False}   # the exhaustive part is a sub-space; random histories go beyond it

net = None
CLASSES = {}
# (N_ins, ins_fixed, N_outs, outs_fixed)
SHAPES = [(2, 1, 1, 1), (1, 0, 2, 1), (2, 1, 2, 0), (1, 1, 1, 1), (0, 0, 1, 0), (3, 0, 3, 1)]


def setup():
    global net
    import thermosteam as tmo
    from thermosteam import network as net_
    net = net_
    tmo.settings.set_thermo(['Water'], cache=True)
    warnings.simplefilter('ignore')
    for (ni, fi, no, fo) in SHAPES:
        name = f'VU_{ni}{fi}{no}{fo}'
        CLASSES[(ni, fi, no, fo)] = type(name, (net.AbstractUnit,), dict(
            _N_ins=ni, _N_outs=no, _ins_size_is_fixed=bool(fi), _outs_size_is_fixed=bool(fo),
            _init=lambda self: None))


def budget(tier):
    return {'quick': dict(seconds=60, cases=400, shrink_s=15, search_s=10),
            'thorough': dict(seconds=420, cases=6000, shrink_s=40, search_s=30)}[tier]


class ErrorInOp(Exception):
    pass


class BadRef(Exception):
    """the protocol line refers to a unit / stream / port that does not exist"""


ERRMAP = [(IndexError, 'IndexError'), (RuntimeError, 'RuntimeError'), (ValueError, 'ValueError'),
          (TypeError, 'TypeError'), (AttributeError, 'TypeError')]


class Universe:
    """The real objects of one case."""
    def __init__(self):
        self.units = []
        self.streams = []      # real streams in creation order
        self.shape = []

    # -- references ---------------------------------------------------------
    def unit(self, u):
        u = int(u)
        if not 0 <= u < len(self.units): raise BadRef(f'U{u}')
        return self.units[u]

    def seq(self, k, u):
        un = self.unit(u)
        return un.ins if k == 'i' else un.outs

    def ref(self, t):
        try:
            if t.startswith('s'):
                return self.streams[int(t[1:])]
            if t.startswith('p'):
                k, u, i = t[1:].split('.')
                return self.seq(k, int(u))._streams[int(i)]
        except IndexError:
            raise BadRef(t)
        raise BadRef(t)

    def optref(self, t):
        return None if t == 'none' else self.ref(t)

    def refs(self, t):
        return [] if t in ('', '[]') else [self.ref(x) for x in t.split(',')]

    def optrefs(self, t):
        return [] if t in ('', '[]') else [self.optref(x) for x in t.split(',')]

    def portref(self, t):
        return int(t[1:]) if t.startswith('i') else self.ref(t)

    def adopt(self):
        """register real streams created inside a constructor (ins first, then outs, in list order)"""
        known = set(map(id, self.streams))
        u = self.units[-1]
        for x in list(u.ins._streams) + list(u.outs._streams):
            if isinstance(x, net.AbstractStream) and id(x) not in known:
                self.streams.append(x); known.add(id(x))

    # -- canonical state ------------------------------------------------------
    def name(self, x):
        if isinstance(x, net.AbstractStream):
            for n, s in enumerate(self.streams):
                if s is x: return f's{n}'
            return '?'
        return '_'

    def uname(self, u):
        if u is None: return '-'
        for n, v in enumerate(self.units):
            if v is u: return f'U{n}'
        return 'U?'

    def show(self):
        parts = []
        for n, u in enumerate(self.units):
            parts.append(f'U{n}.i=[{",".join(self.name(x) for x in u.ins._streams)}] '
                         f'U{n}.o=[{",".join(self.name(x) for x in u.outs._streams)}]')
        for n, s in enumerate(self.streams):
            parts.append(f's{n}={self.uname(s._source)}>{self.uname(s._sink)}')
        return ' '.join(parts)

    # -- the property itself, on the real objects --------------------------------
    def invariant_failures(self):
        out = []
        for n, u in enumerate(self.units):
            for k, seq, attr, fixed, size in (('i', u.ins, '_sink', u._ins_size_is_fixed, u._N_ins),
                                               ('o', u.outs, '_source', u._outs_size_is_fixed, u._N_outs)):
                lst = seq._streams
                for x in lst:
                    if isinstance(x, net.AbstractStream):
                        if getattr(x, attr) is not u:
                            out.append(('listed-not-docked', k, fixed))
                        if sum(1 for y in lst if y is x) > 1:
                            out.append(('duplicate', k, fixed))
                    else:
                        if bool(x):
                            out.append(('placeholder-truthy', k, fixed))
                if fixed and len(lst) != size:
                    out.append(('size', k, fixed))
        for s in self.streams:
            if s._sink is not None and not any(y is s for y in s._sink.ins._streams):
                out.append(('docked-not-listed', 'i', s._sink._ins_size_is_fixed))
            if s._source is not None and not any(y is s for y in s._source.outs._streams):
                out.append(('docked-not-listed', 'o', s._source._outs_size_is_fixed))
        return out

    # -- operations ------------------------------------------------------------
    def ports_arg(self, t):
        if t == 'M': return None
        if t == 'F': return ()
        items = t[2:]
        res = []
        if items:
            for x in items.split(','):
                if x == 'new': res.append('')       # a string ID: '' lets the registry pick one
                elif x == 'none': res.append(None)
                else: res.append(self.ref(x))
        return res

    def apply(self, line):
        t = line.split(' ')
        op = t[0]
        pre = ''
        if op == 'unit':
            ni, fi, ai, no, fo, ao = int(t[1]), int(t[2]), t[3], int(t[4]), int(t[5]), t[6]
            cls = CLASSES[(ni, fi, no, fo)]
            ins, outs = self.ports_arg(ai), self.ports_arg(ao)
            # the unit object exists (and is registered here) even if the constructor raises later
            u = cls.__new__(cls)
            self.units.append(u)
            try:
                u.__init__('', ins=ins, outs=outs)
            except Exception:
                self.units.pop(); raise
            self.adopt()
        elif op == 'stream':
            self.streams.append(net.AbstractStream(''))
        elif op == 'set':
            self.seq(t[1], int(t[2]))[int(t[3])] = self.optref(t[4])
        elif op == 'slice':
            self.seq(t[1], int(t[2]))[int(t[3]):int(t[4])] = self.optrefs(t[5])
        elif op == 'sliceall':
            self.seq(t[1], int(t[2]))[:] = self.optrefs(t[3])
        elif op == 'ins':
            self.seq(t[1], int(t[2])).insert(int(t[3]), self.ref(t[4]))
        elif op == 'app':
            self.seq(t[1], int(t[2])).append(self.ref(t[3]))
        elif op == 'ext':
            self.seq(t[1], int(t[2])).extend(self.refs(t[3]))
        elif op == 'rep':
            self.seq(t[1], int(t[2])).replace(self.ref(t[3]), self.optref(t[4]))
        elif op == 'pop':
            r = self.seq(t[1], int(t[2])).pop(int(t[3]))
            pre = f'ret={self.name(r)} '
        elif op == 'rem':
            self.seq(t[1], int(t[2])).remove(self.ref(t[3]))
        elif op == 'clr':
            self.seq(t[1], int(t[2])).clear()
        elif op == 'emp':
            self.seq(t[1], int(t[2])).empty()
        elif op == 'dsrc':
            self.ref(t[1]).disconnect_source()
        elif op == 'dsnk':
            self.ref(t[1]).disconnect_sink()
        elif op == 'disc':
            self.ref(t[1]).disconnect()
        elif op == 'udisc':
            def lst(x):
                if x == '-': return None
                if x == '[]': return []
                return [self.portref(y) for y in x.split(',')]
            self.unit(t[1]).disconnect(inlets=lst(t[2]), outlets=lst(t[3]), join_ends=(t[4] == '1'))
        elif op == 'tpo':
            self.unit(t[1]).take_place_of(self.unit(t[2]))
        elif op == 'rww':
            self.unit(t[1]).replace_with(self.unit(t[2]))
        elif op == 'rwn':
            self.unit(t[1]).replace_with(None)
        elif op == 'recon':
            def port(x):
                if x == '-': return (None, None)
                u, i = x.split(':'); return (self.unit(u), int(i))
            (su, si), (ku, ki) = port(t[1]), port(t[3])
            net.Connection(su, si, self.ref(t[2]), ki, ku).reconnect()
        elif op == 'uins':
            def pr(x): return None if x == '-' else self.portref(x)
            self.unit(t[1]).insert(self.ref(t[2]), inlet=pr(t[3]), outlet=pr(t[4]))
        elif op == 'pipe_s_i_u':
            self.ref(t[1]) - int(t[2]) - self.unit(t[3])
        elif op == 'pipe_u_i_s':
            self.unit(t[1]) ** int(t[2]) ** self.ref(t[3])
        elif op == 'pipe_u_u':
            self.unit(t[1]) - self.unit(t[2])
        elif op == 'pipe_ss_u':
            tuple(self.optrefs(t[1])) - self.unit(t[2])
        elif op == 'pipe_u_ss':
            self.unit(t[1]) - tuple(self.optrefs(t[2]))
        else:
            raise ErrorInOp('unknown op ' + line)
        return pre + self.show()


def opkind(line):
    return line.split(' ')[0]


def run_ops(ops):
    U = Universe()
    outs, failures, dead = [], [], False
    changed = False
    prev = U.show()
    for i, line in enumerate(ops):
        if dead:
            outs.append('dead'); continue
        try:
            o = U.apply(line)
        except ErrorInOp:
            raise
        except BadRef:
            outs.append('bad-op'); dead = True
            continue
        except Exception as e:
            for cls, nm in ERRMAP:
                if isinstance(e, cls):
                    outs.append('err=' + nm); break
            else:
                outs.append('err=' + type(e).__name__)
            dead = True
            continue
        outs.append(o)
        now = U.show()
        if now != prev and opkind(line) not in ('unit', 'stream'): changed = True
        prev = now
        if not failures:     # once the invariant is broken every later state is tainted: stop judging
            for clause, k, fixed in U.invariant_failures()[:1]:
                failures.append({'signature': f'{opkind(line)}/{"fixed" if fixed else "var"}:{clause}',
                                 'op_index': i,
                                 'what': f'after `{line}` a port list and a stream disagree: {clause} '
                                         f'({"fixed" if fixed else "variable"}-size {"ins" if k == "i" else "outs"})'})
    return U, outs, failures, changed


def run_impl(case: Case) -> ImplResult:
    U, outs, failures, changed = run_ops(case.ops)
    tags = sorted({opkind(l) for l in case.ops})
    tags += ['err:' + o[4:] for o in outs if o.startswith('err=')]
    return ImplResult(model_in=list(case.ops), outs=outs, failures=failures, tags=tags,
                      nontrivial=(tuple(case.ops) if changed else None))


def compare(impl_line, model_line):
    m = model_line
    if m.startswith('pre='): m = m[6:]
    return impl_line == m


def filter_failures(res, model_out):
    """An invariant failure counts only while every operation so far was used within the
    property's preconditions, as judged by the model's sticky pre= flag."""
    keep = []
    for f in res.failures:
        i = f['op_index']
        if i < len(model_out) and model_out[i].startswith('pre=1'):
            keep.append(f)
    return keep


def model_tags(line):
    return ['pre=0'] if line.startswith('pre=0') else []


# --------------------------------------------------------------------------
# generation
# --------------------------------------------------------------------------

def gen_prelude(rng, n_units, n_streams):
    ops = []
    shapes = [rng.choice(SHAPES) for _ in range(n_units)]
    # guarantee fixed and variable lists on both sides
    if n_units >= 3:
        shapes[0], shapes[1], shapes[2] = SHAPES[0], SHAPES[1], SHAPES[2]
    for _ in range(n_streams):
        ops.append('stream')
    for (ni, fi, no, fo) in shapes:
        ops.append(None)  # placeholder, filled adaptively (constructor args may use streams)
    return ops, shapes


def choose_stream(rng, U, k, allow_placeholder=0.15, undocked_only=False, not_in=None):
    """a stream reference; mostly valid w.r.t. the preconditions"""
    if rng.random() < allow_placeholder:
        cands = [(k2, u, i) for u, un in enumerate(U.units) for k2 in 'io'
                 for i, x in enumerate(U.seq(k2, u)._streams) if not isinstance(x, net.AbstractStream)]
        if cands:
            k2, u, i = rng.choice(cands)
            return f'p{k2}.{u}.{i}'
    attr = '_sink' if k == 'i' else '_source'
    idx = list(range(len(U.streams)))
    if undocked_only:
        good = [n for n in idx if getattr(U.streams[n], attr) is None]
    elif not_in is not None:
        good = [n for n in idx if not any(y is U.streams[n] for y in not_in)]
    else:
        good = idx
    if good and rng.random() < 0.92:
        return f's{rng.choice(good)}'
    if idx:
        return f's{rng.choice(idx)}'
    return None


def gen_op(rng, U):
    nu = len(U.units)
    if nu == 0: return 'stream'
    k = rng.choice('io')
    u = rng.randrange(nu)
    seq = U.seq(k, u)
    n = len(seq._streams)
    fixed = seq._fixed_size
    kind = rng.choices(
        ['set', 'slice', 'sliceall', 'ins', 'app', 'ext', 'rep', 'pop', 'rem', 'clr', 'emp', 'dsrc', 'dsnk',
         'disc', 'udisc', 'tpo', 'rww', 'rwn', 'recon', 'uins', 'pipe_s_i_u', 'pipe_u_i_s', 'pipe_u_u',
         'pipe_ss_u', 'pipe_u_ss', 'stream', 'unit'],
        [14, 6, 4, 6, 6, 3, 6, 7, 6, 3, 3, 3, 3,
         3, 5, 3, 2, 3, 3, 5, 4, 4, 4,
         3, 3, 2, 1])[0]
    if kind == 'stream': return 'stream'
    if kind == 'unit':
        return gen_unit(rng, U, rng.choice(SHAPES))
    if kind in ('set', 'pipe_s_i_u', 'pipe_u_i_s'):
        if kind == 'pipe_s_i_u': k = 'i'; seq = U.seq(k, u); n = len(seq._streams)
        if kind == 'pipe_u_i_s': k = 'o'; seq = U.seq(k, u); n = len(seq._streams)
        i = rng.randrange(n + 1) if (n == 0 or rng.random() < 0.1) else rng.randrange(n)
        if kind == 'set' and rng.random() < 0.12:
            return f'set {k} {u} {i} none'
        s = choose_stream(rng, U, k, allow_placeholder=(0.1 if kind == 'set' else 0), not_in=seq._streams)
        if s is None: return 'stream'
        if kind == 'set': return f'set {k} {u} {i} {s}'
        if kind == 'pipe_s_i_u': return f'pipe_s_i_u {s} {i} {u}'
        return f'pipe_u_i_s {u} {i} {s}'
    if kind in ('slice', 'sliceall', 'pipe_ss_u', 'pipe_u_ss'):
        if kind == 'pipe_ss_u': k = 'i'
        if kind == 'pipe_u_ss': k = 'o'
        seq = U.seq(k, u); n = len(seq._streams); fixed = seq._fixed_size
        if kind == 'slice':
            a = rng.randrange(n + 1); b = rng.randrange(n + 2)
            if rng.random() < 0.8 and b < a: a, b = b, a
        else:
            a, b = 0, n
        kept = seq._streams[:a] + seq._streams[max(a, b):]
        room = (seq._size - len(kept)) if fixed else 3
        if rng.random() < 0.08: room += 1
        m = rng.randrange(max(room, 0) + 1)
        items, used = [], list(kept)
        for _ in range(m):
            if rng.random() < 0.15 and kind in ('slice', 'sliceall'):
                items.append('none'); continue
            s = choose_stream(rng, U, k, allow_placeholder=0.05, not_in=used)
            if s is None: continue
            items.append(s)
            try: used.append(U.ref(s))
            except Exception: pass
        it = ','.join(items) if items else '[]'
        if kind == 'slice': return f'slice {k} {u} {a} {b} {it}'
        if kind == 'sliceall': return f'sliceall {k} {u} {it}'
        if kind == 'pipe_ss_u':
            if not items: return f'sliceall i {u} []'
            return f'pipe_ss_u {it} {u}'
        if not items: return f'sliceall o {u} []'
        return f'pipe_u_ss {u} {it}'
    if kind in ('ins', 'app'):
        s = choose_stream(rng, U, k, allow_placeholder=0.08, undocked_only=True)
        if s is None: return 'stream'
        if kind == 'app': return f'app {k} {u} {s}'
        return f'ins {k} {u} {rng.randrange(n + 2)} {s}'
    if kind == 'ext':
        m = rng.randrange(3)
        items = []
        for _ in range(m):
            s = choose_stream(rng, U, k, allow_placeholder=0.05, undocked_only=True)
            if s and s not in items: items.append(s)
        return f'ext {k} {u} {",".join(items) if items else "[]"}'
    if kind == 'rep':
        if n == 0: return 'stream'
        i = rng.randrange(n)
        a = f'p{k}.{u}.{i}' if not isinstance(seq._streams[i], net.AbstractStream) or rng.random() < 0.3 \
            else U.name(seq._streams[i])
        if rng.random() < 0.08:
            a = choose_stream(rng, U, k) or a
        if rng.random() < 0.15: return f'rep {k} {u} {a} none'
        b = choose_stream(rng, U, k, allow_placeholder=0.1, not_in=seq._streams)
        if b is None: return 'stream'
        return f'rep {k} {u} {a} {b}'
    if kind == 'pop':
        i = rng.randrange(n + 1) if (n == 0 or rng.random() < 0.08) else rng.randrange(n)
        return f'pop {k} {u} {i}'
    if kind == 'rem':
        if n and rng.random() < 0.92:
            i = rng.randrange(n)
            x = seq._streams[i]
            a = U.name(x) if isinstance(x, net.AbstractStream) else f'p{k}.{u}.{i}'
        else:
            a = choose_stream(rng, U, k)
            if a is None: return 'stream'
        return f'rem {k} {u} {a}'
    if kind in ('clr', 'emp'):
        return f'{kind} {k} {u}'
    if kind in ('dsrc', 'dsnk', 'disc'):
        s = choose_stream(rng, U, k, allow_placeholder=0.15)
        if s is None: return 'stream'
        return f'{kind} {s}'
    if kind == 'udisc':
        un = U.units[u]
        def pick(seq):
            r = rng.random()
            if r < 0.45: return '-'
            lst = seq._streams
            if not lst: return '[]'
            m = rng.randrange(min(len(lst), 2) + 1)
            idxs = rng.sample(range(len(lst)), m)
            out = []
            for i in idxs:
                x = lst[i]
                if isinstance(x, net.AbstractStream) and rng.random() < 0.6: out.append(U.name(x))
                else: out.append(f'i{i}')
            return ','.join(out) if out else '[]'
        inl, outl = pick(un.ins), pick(un.outs)
        join = '1' if rng.random() < 0.3 else '0'
        return f'udisc {u} {inl} {outl} {join}'
    if kind in ('tpo', 'rww', 'pipe_u_u'):
        v = rng.randrange(nu)
        return f'{kind} {u} {v}'
    if kind == 'rwn':
        return f'rwn {u}'
    if kind == 'recon':
        s = choose_stream(rng, U, k, allow_placeholder=0)
        if s is None: return 'stream'
        def port(kk):
            if rng.random() < 0.35: return '-'
            v = rng.randrange(nu); m = len(U.seq(kk, v)._streams)
            if m == 0: return '-'
            return f'{v}:{rng.randrange(m)}'
        return f'recon {port("o")} {s} {port("i")}'
    if kind == 'uins':
        # a stream with both ends connected is the intended use
        both = [n for n, s in enumerate(U.streams) if s._source is not None and s._sink is not None]
        anyc = list(range(len(U.streams)))
        if both and rng.random() < 0.85: s = f's{rng.choice(both)}'
        elif anyc: s = f's{rng.choice(anyc)}'
        else: return 'stream'
        un = U.units[u]
        def pr(seq, side):
            r = rng.random()
            if r < 0.45 or not seq._streams: return '-'
            i = rng.randrange(len(seq._streams))
            x = seq._streams[i]
            if isinstance(x, net.AbstractStream) and rng.random() < 0.5: return U.name(x)
            return f'i{i}'
        return f'uins {u} {s} {pr(un.ins, "i")} {pr(un.outs, "o")}'
    return 'stream'


def gen_unit(rng, U, shape):
    ni, fi, no, fo = shape
    def arg(k, n, fx):
        r = rng.random()
        if r < 0.35: return 'M'
        if r < 0.55: return 'F'
        m = rng.randrange(n + 1) if fx else rng.randrange(n + 2)
        if rng.random() < 0.05: m = n + 1
        items = []
        for _ in range(m):
            r = rng.random()
            if r < 0.2: items.append('new')
            elif r < 0.3: items.append('none')
            else:
                s = choose_stream(rng, U, k, allow_placeholder=0)
                if s and s not in items: items.append(s)
                else: items.append('new')
        return 'L:' + ','.join(items)
    return f'unit {ni} {fi} {arg("i", ni, fi)} {no} {fo} {arg("o", no, fo)}'


def gen_case(rng, n_units, n_streams, length):
    U = Universe()
    ops = []
    def do(line):
        ops.append(line)
        try:
            U.apply(line)
            return True
        except ErrorInOp:
            raise
        except Exception:
            return False
    for _ in range(n_streams): do('stream')
    shapes = [rng.choice(SHAPES) for _ in range(n_units)]
    if n_units >= 3: shapes[:3] = SHAPES[:3]
    for sh in shapes:
        if not do(gen_unit(rng, U, sh)): return Case(ops, {})
    for _ in range(length):
        if not do(gen_op(rng, U)): break
    return Case(ops, {})


BASE = ['stream'] * 5 + ['unit 2 1 M 1 1 M', 'unit 1 0 M 2 1 M', 'unit 2 1 M 2 0 M']


def alphabet():
    """the finite operation alphabet over the 3-unit / 5-stream universe (indices 0..1, whole-list
    slices of up to two streams); used for exhaustive enumeration"""
    ops = []
    S = [f's{i}' for i in range(5)]
    for u in range(3):
        for k in 'io':
            for i in (0, 1):
                for s in S + ['none']:
                    ops.append(f'set {k} {u} {i} {s}')
                ops.append(f'pop {k} {u} {i}')
                for s in S[:3]:
                    ops.append(f'ins {k} {u} {i} {s}')
            for s in S:
                ops.append(f'app {k} {u} {s}')
                ops.append(f'rem {k} {u} {s}')
            ops.append(f'clr {k} {u}'); ops.append(f'emp {k} {u}')
            ops.append(f'sliceall {k} {u} []')
            for s in S[:3]:
                ops.append(f'sliceall {k} {u} {s}')
            ops.append(f'sliceall {k} {u} s0,s1'); ops.append(f'sliceall {k} {u} s3,none')
            ops.append(f'rep {k} {u} p{k}.{u}.0 s4'); ops.append(f'rep {k} {u} p{k}.{u}.0 none')
        for v in range(3):
            if v != u:
                ops.append(f'tpo {u} {v}'); ops.append(f'pipe_u_u {u} {v}')
        ops.append(f'rwn {u}')
        ops.append(f'udisc {u} - - 0'); ops.append(f'udisc {u} - - 1'); ops.append(f'udisc {u} i0 i0 0')
        for s in S[:2]:
            ops.append(f'uins {u} {s} - -')
    for s in S:
        ops += [f'dsrc {s}', f'dsnk {s}', f'disc {s}']
    return ops


def generate(rng, tier, index, nworkers):
    b = budget(tier)
    A = alphabet()
    # exhaustive part: every sequence of length 1 (quick) / 2 (thorough) over the alphabet from the
    # empty 3-unit / 5-stream universe; plus every single op from random reachable states
    if tier == 'thorough':
        pairs = [(a, c) for a in A for c in A]
        for j in range(index, len(pairs), nworkers):
            yield Case(BASE + list(pairs[j]), {'exhaustive': 2})
    else:
        for j in range(index, len(A), nworkers):
            yield Case(BASE + [A[j]], {'exhaustive': 1})
    for _ in range(6 if tier == 'quick' else 40):
        pre = gen_case(rng, 3, 5, rng.randrange(2, 10)).ops
        # keep only if the prefix has the standard universe shape (3 units, 5 streams at the front)
        base = ['stream'] * 5 + [l for l in pre if l.startswith('unit')][:3]
        if len(base) != 8: continue
        mid = [l for l in pre if not l.startswith('unit') and l != 'stream']
        for a in A:
            if rng.random() < (0.5 if tier == 'quick' else 1.0):
                yield Case(base + mid + [a], {'exhaustive': 'frontier'})

    n = max(1, b['cases'] // nworkers)
    for j in range(n):
        r = rng.random()
        if r < 0.5:
            yield gen_case(rng, 3, 5, rng.randrange(3, 12))
        elif r < 0.85:
            yield gen_case(rng, rng.randrange(3, 6), rng.randrange(5, 9), rng.randrange(10, 30))
        else:
            yield gen_case(rng, rng.randrange(4, 7), rng.randrange(6, 11), 50)


def protect_prefix(case):
    n = 0
    for l in case.ops:
        if l.startswith('stream') or l.startswith('unit'): n += 1
        else: break
    return 0


def corpus():
    return [
        Case(['unit 2 1 M 1 1 M', 'unit 1 0 M 2 1 F', 'stream', 'set i 0 0 s2', 'set i 1 0 s2', 'pop i 1 0']),
        Case(['unit 2 1 M 1 1 M', 'stream', 'set i 0 0 s0', 'clr i 0']),
        Case(['unit 2 1 M 1 1 F', 'udisc 0 - s0 0']),
        Case(['unit 1 1 F 1 1 F', 'unit 2 1 M 2 0 M', 'unit 1 1 M 1 1 M', 'pipe_s_i_u s1 0 2', 'unit 2 1 F 1 1 F',
              'uins 3 s1 i1 -']),
    ]


def search(case, rng, budget_s):
    """Look for a property failure on the real code near a disagreement: random continuations."""
    import time
    t0 = time.time()
    from harness import core
    while time.time() - t0 < budget_s:
        U = Universe()
        ops = list(case.ops)
        ok = True
        for l in ops:
            try: U.apply(l)
            except Exception: ok = False; break
        if not ok: return None
        for _ in range(rng.randrange(1, 8)):
            l = gen_op(rng, U); ops.append(l)
            try: U.apply(l)
            except Exception: break
        c = Case(ops, {})
        res = run_impl(c)
        if res.failures:
            mo = core.run_driver(PID, [res.model_in])[0]
            if filter_failures(res, mo): return c
    return None
