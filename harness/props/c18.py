"""
C18 — flowsheet connections stay mutually consistent under every rewiring operation.

Adapter for thermosteam/network.py (AbstractUnit / AbstractStream / AbstractMissingStream /
StreamSequence), generator of rewiring histories, and the docking invariant evaluated on the
real objects — streams AND placeholder objects, both with identity.  The Lean model is
lean/ThermoVerif/Model/Network.lean.

Names on the protocol: `sN` = N-th real stream (creation order), `mN` = N-th placeholder object
(order of first appearance in a port list; canonical scan unit by unit, ins then outs, port by
port, after every operation), `p<i|o>.<u>.<idx>` = whatever object sits at that port now.
"""
from __future__ import annotations
import itertools, random, warnings
from harness.core import Case, ImplResult

PID = 'C18'
LEAN_MODULES = ['ThermoVerif.Props.C18']
RULE = ('histories of rewiring operations over a universe of AbstractUnit subclasses with fixed and variable '
        'port counts, AbstractStreams and the placeholder objects the port lists create. Exhaustive part: every '
        'operation of two finite alphabets (empty 3-unit universe; connected 4-unit universe) to depth 1 (quick) / '
        '2 (thorough), plus every alphabet operation after random reachable prefixes. Random part: histories of a '
        'target length up to ~55 operations generated adaptively on the real objects: a proposed operation that '
        'the code rejects or that leaves the stated preconditions (Python monitor on the real objects; for single-list '
        'calls only if a reading of the call\'s own arguments agrees, so the code under test cannot veto an input) is dropped '
        'and generation continues, so the histories are as long as stated and almost entirely judged by the '
        'oracle; 30% end with a few unfiltered operations, 12% are plain histories that stop at the first '
        'rejected call. A case is non-trivial when at least one operation changed the connectivity; distinct = '
        'distinct op sequences. Evidence: random_history_lengths, per_op_kind (judged / unjudged / raised), '
        'placeholder_moves, oracle failures set aside outside the preconditions, states left by raising calls.')
ASSUMPTIONS = [
    'Python object identity is modelled by ids; list semantics of `in`, `index`, slice assignment as in CPython',
    'the stated preconditions are evaluated twice, independently: in Python on the real objects at every primitive '
    'list operation the real code performs (Monitor) and '
    'in the Lean model (pre= flag); the two flags are part of the compared line, so they must agree on every line, '
    'and an oracle failure is set aside only when both are off. '
    'Both are sticky and treat placeholder objects like streams',
    'a call that raises ends the history: the state a rejected call leaves behind is outside the property as read '
    '(it is inspected and reported in the evidence under states_left_by_raising_calls, not judged)',
    'stepped slices, `del`, auxiliary/superposition streams and the `discard=` flags are not generated; negative '
    'indices (item assignment, pop, insert) and open / negative slice bounds are',
    'every other unit and every third stream is created unregistered (`ID=None`, ID == \'\'), the others with an auto ID',
    'placeholder objects inside constructor lists are not generated (the code would take them for IDs); the single '
    'form `ins=<placeholder>` is',
    'the placeholders a fixed-size constructor creates and overwrites before returning are unreachable and not observed',
    '`unit._owner` (auxiliary unit owner, looked at by Connection.reconnect only) is set directly as an attribute',
]
TRUSTED = ['Lean 4.33 kernel', 'correspondence harness harness/props/c18.py + Driver/C18.lean',
           'generator reach (see histogram)']
EXHAUSTIVE = {'quick': False, 'thorough': False}   # the exhaustive part is a sub-space; random histories go beyond it

net = None
CLASSES = {}
# (N_ins, ins_fixed, N_outs, outs_fixed)
SHAPES = [(2, 1, 1, 1), (1, 0, 2, 1), (2, 1, 2, 0), (1, 1, 1, 1), (0, 0, 1, 0), (3, 0, 3, 1), (2, 1, 2, 1)]


class Monitor:
    """The property's stated preconditions, evaluated in Python on the REAL objects at every primitive
    list operation the real code performs (item assignment, slice assignment, insert, append, extend;
    whoever calls them: the user, pipe notation, unit.insert, replace_with, reconnect, ports …),
    independently of the Lean model.  Sticky, like the model's flag; compared with it on every line.

      * a stream assigned to a port is not already in the same port list;
      * a slice (or piped unit / tuple) supplies distinct objects, none of which stays in the kept part of
        the list, and not more than a fixed-size list holds;
      * a stream that is appended or inserted is not docked on that side of any unit;
      * (constructor) the stream objects of a list argument are distinct streams.
    Placeholder objects are subject to the same conditions as streams."""
    def __init__(self):
        self.pre = True

    def reset(self):
        self.pre = True

    @staticmethod
    def attr(seq):
        return '_sink' if isinstance(seq, net.AbstractInlets) else '_source'

    def on_set(self, seq, stream):
        if stream is not None and any(y is stream for y in seq._streams):
            self.pre = False

    def on_slice(self, seq, slc, streams):
        lst = seq._streams
        gone = set(range(*slc.indices(len(lst))))
        kept = [x for j, x in enumerate(lst) if j not in gone]
        objs = [x for x in streams if x is not None]
        if len({id(x) for x in objs}) != len(objs): self.pre = False
        if any(any(y is x for y in kept) for x in objs): self.pre = False
        if seq._fixed_size and len(kept) + len(streams) > seq._size: self.pre = False

    def on_add(self, seq, streams):
        attr, seen = self.attr(seq), set()
        for x in streams:
            if getattr(x, attr, None) is not None or id(x) in seen: self.pre = False
            seen.add(id(x))

    def on_ctor(self, given):
        objs = [x for x in given if not isinstance(x, str) and x is not None]
        if len({id(x) for x in objs}) != len(objs): self.pre = False
        if any(not is_stream(x) for x in objs): self.pre = False


MON = Monitor()


def setup():
    global net
    import thermosteam as tmo
    from thermosteam import network as net_
    net = net_
    tmo.settings.set_thermo(['Water'], cache=True)
    warnings.simplefilter('ignore')

    class Watched:
        """mixin for the port lists of the test units: reports every primitive list operation to the
        monitor, then lets the real code do its work unchanged"""
        __slots__ = ()
        def _set_stream(self, int, stream, stacklevel):
            MON.on_set(self, stream)
            return super()._set_stream(int, stream, stacklevel)
        def _set_streams(self, slice, streams, stacklevel):
            MON.on_slice(self, slice, list(streams))      # the real code gets the caller's object, live
            return super()._set_streams(slice, streams, stacklevel)
        def insert(self, index, stream):
            if not self._fixed_size: MON.on_add(self, [stream])
            return super().insert(index, stream)
        def append(self, stream):
            if not self._fixed_size: MON.on_add(self, [stream])
            return super().append(stream)
        def extend(self, streams):
            if not self._fixed_size: MON.on_add(self, list(streams))
            return super().extend(streams)

    WIn = type('WatchedInlets', (Watched, net.AbstractInlets), {'__slots__': ()})
    WOut = type('WatchedOutlets', (Watched, net.AbstractOutlets), {'__slots__': ()})
    for (ni, fi, no, fo) in SHAPES:
        name = f'VU_{ni}{fi}{no}{fo}'
        CLASSES[(ni, fi, no, fo)] = type(name, (net.AbstractUnit,), dict(
            _N_ins=ni, _N_outs=no, _ins_size_is_fixed=bool(fi), _outs_size_is_fixed=bool(fo),
            Inlets=WIn, Outlets=WOut, _init=lambda self: None))


def budget(tier):
    return {'quick': dict(seconds=80, cases=400, shrink_s=15, search_s=10),
            'thorough': dict(seconds=540, cases=6000, shrink_s=40, search_s=30)}[tier]


class ErrorInOp(Exception):
    pass


class BadRef(Exception):
    """the protocol line refers to a unit / stream / port that does not exist"""


ERRMAP = [(IndexError, 'IndexError'), (RuntimeError, 'RuntimeError'), (ValueError, 'ValueError'),
          (TypeError, 'TypeError'), (AttributeError, 'TypeError')]


def is_stream(x):
    return isinstance(x, net.AbstractStream)


def is_placeholder(x):
    return isinstance(x, net.AbstractMissingStream)


class Universe:
    """The real objects of one case."""
    def __init__(self):
        self.units = []
        self.streams = []      # real streams in creation order
        self.missing = []      # placeholder objects in order of first appearance (kept alive here)
        self._mid = {}         # id(obj) -> index in self.missing
        self.shape = []

    # -- references ---------------------------------------------------------
    def unit(self, u):
        u = int(u)
        if not 0 <= u < len(self.units): raise BadRef(f'U{u}')
        return self.units[u]

    def seq(self, k, u):
        un = self.unit(u)
        return un.ins if k == 'i' else un.outs

    def ref(self, t):
        try:
            if t.startswith('s'):
                return self.streams[int(t[1:])]
            if t.startswith('m'):
                return self.missing[int(t[1:])]
            if t.startswith('p'):
                k, u, i = t[1:].split('.')
                return self.seq(k, int(u))._streams[int(i)]
        except (IndexError, ValueError):
            raise BadRef(t)
        raise BadRef(t)

    def optref(self, t):
        return None if t == 'none' else self.ref(t)

    def refs(self, t):
        return [] if t in ('', '[]') else [self.ref(x) for x in t.split(',')]

    def optrefs(self, t):
        return [] if t in ('', '[]') else [self.optref(x) for x in t.split(',')]

    def portref(self, t):
        return int(t[1:]) if t.startswith('i') else self.ref(t)

    def adopt(self):
        """register real streams created inside a constructor (ins first, then outs, in list order)"""
        known = set(map(id, self.streams))
        u = self.units[-1]
        for x in list(u.ins._streams) + list(u.outs._streams):
            if is_stream(x) and id(x) not in known:
                self.streams.append(x); known.add(id(x))

    def register(self):
        """name the placeholder objects that became visible: canonical scan unit by unit, ins then
        outs, port by port"""
        for u in self.units:
            for x in list(u.ins._streams) + list(u.outs._streams):
                if not is_stream(x) and id(x) not in self._mid:
                    self._mid[id(x)] = len(self.missing)
                    self.missing.append(x)

    # -- canonical state ------------------------------------------------------
    def name(self, x):
        if is_stream(x):
            for n, s in enumerate(self.streams):
                if s is x: return f's{n}'
            return '?'
        n = self._mid.get(id(x))
        return '?' if n is None else f'm{n}'

    def uname(self, u):
        if u is None: return '-'
        for n, v in enumerate(self.units):
            if v is u: return f'U{n}'
        return 'U?'

    def show(self):
        parts = []
        for n, u in enumerate(self.units):
            parts.append(f'U{n}.i=[{",".join(self.name(x) for x in u.ins._streams)}] '
                         f'U{n}.o=[{",".join(self.name(x) for x in u.outs._streams)}]')
        for n, s in enumerate(self.streams):
            parts.append(f's{n}={self.uname(s._source)}>{self.uname(s._sink)}')
        for n, s in enumerate(self.missing):
            parts.append(f'm{n}={self.uname(s._source)}>{self.uname(s._sink)}')
        return ' '.join(parts)

    def pointers(self):
        """(source, sink) of every registered placeholder, as unit objects"""
        return [(m._source, m._sink) for m in self.missing]

    # -- the property itself, on the real objects only --------------------------------
    def invariant_failures(self):
        """Every object the harness can reach (all real streams, every placeholder object ever seen
        in a port list, everything listed now) against every port list:
        listed in u.ins <=> sink is u; listed in u.outs <=> source is u; never in two ports;
        fixed-size lists keep their size; placeholders report no material."""
        real, ph = [], []
        sides = []
        for u in self.units:
            sides.append((u, 'i', u.ins._streams, '_sink', u._ins_size_is_fixed, u._N_ins))
            sides.append((u, 'o', u.outs._streams, '_source', u._outs_size_is_fixed, u._N_outs))
        objs = list(self.streams) + list(self.missing)
        seen = set(map(id, objs))
        for (u, k, lst, attr, fixed, size) in sides:
            for x in lst:
                if id(x) not in seen:
                    seen.add(id(x)); objs.append(x)
        for x in objs:
            isph = not is_stream(x)
            out = ph if isph else real
            if isph and not is_placeholder(x):
                out.append(('foreign-object', 'i', False)); continue
            for (u, k, lst, attr, fixed, size) in sides:
                cnt = sum(1 for y in lst if y is x)
                docked = getattr(x, attr) is u
                if cnt > 1: out.append(('two-ports' if isph else 'duplicate', k, fixed))
                if cnt and not docked: out.append(('listed-not-docked', k, fixed))
                if docked and not cnt: out.append(('docked-not-listed', k, fixed))
            if isph:
                material = bool(x)
                for attr in ('F_mol', 'F_mass', 'F_vol'):
                    try:
                        if getattr(x, attr, 0): material = True
                    except Exception: pass
                if hasattr(x, 'isempty'):
                    try:
                        if not x.isempty(): material = True
                    except Exception: pass
                if material: out.append(('reports-material', 'i', False))
        size_f = [('size', k, fixed) for (u, k, lst, attr, fixed, size) in sides if fixed and len(lst) != size]
        return ([('s', f) for f in real] + [('s', f) for f in size_f] + [('m', f) for f in ph])

    # -- operations ------------------------------------------------------------
    def ports_arg(self, t):
        if t == 'M': return None
        if t == 'F': return ()
        if t.startswith('S:'):
            # a single stream / placeholder object, or a single string ID (`ins=feed`, `ins='ID'`)
            return '' if t[2:] == 'new' else self.ref(t[2:])
        items = t[2:]
        res = []
        if items:
            for x in items.split(','):
                if x == 'new': res.append('')       # a string ID: '' lets the registry pick one
                elif x == 'none': res.append(None)
                else:
                    r = self.ref(x)
                    if not is_stream(r): raise BadRef(x)   # placeholder objects are not constructor items
                    res.append(r)
        return res

    def apply(self, line):
        t = line.split(' ')
        op = t[0]
        pre = ''
        if op == 'unit':
            ni, fi, ai, no, fo, ao = int(t[1]), int(t[2]), t[3], int(t[4]), int(t[5]), t[6]
            cls = CLASSES[(ni, fi, no, fo)]
            ins, outs = self.ports_arg(ai), self.ports_arg(ao)
            if isinstance(ins, list): MON.on_ctor(ins)
            if isinstance(outs, list): MON.on_ctor(outs)
            # the unit object exists (and is registered here) even if the constructor raises later
            u = cls.__new__(cls)
            self.units.append(u)
            try:
                # every other unit is unregistered (`ID=None`, like auxiliary units): its ID is the empty string
                u.__init__(None if len(self.units) % 2 == 0 else '', ins=ins, outs=outs)
            except Exception:
                self.units.pop(); raise
            self.adopt()
        elif op == 'stream':
            # every third stream is unregistered (`ID=None`: its ID is the empty string)
            self.streams.append(net.AbstractStream(None if len(self.streams) % 3 == 2 else ''))
        elif op == 'set':
            self.seq(t[1], int(t[2]))[int(t[3])] = self.optref(t[4])      # the index may be negative
        elif op == 'portset':
            un, st = self.unit(t[2]), self.ref(t[4])
            (net.InletPort if t[1] == 'i' else net.OutletPort)(un, int(t[3])).set_stream(st, 1)
        elif op == 'portfrom':
            x, st = self.ref(t[2]), self.ref(t[3])
            port = net.InletPort.from_inlet(x) if t[1] == 'i' else net.OutletPort.from_outlet(x)
            port.set_stream(st, 1)
        elif op == 'sports':
            xs, ss = self.refs(t[2]), self.refs(t[3])
            ports = net.StreamPorts.from_inlets(xs) if t[1] == 'i' else net.StreamPorts.from_outlets(xs)
            ports[:] = ss
        elif op == 'sport':
            xs, st = self.refs(t[2]), self.ref(t[4])
            ports = net.StreamPorts.from_inlets(xs) if t[1] == 'i' else net.StreamPorts.from_outlets(xs)
            ports[int(t[3])] = st
        elif op == 'own':
            un = self.unit(t[1])
            un._owner = None if t[2] == '-' else self.unit(t[2])
        elif op == 'slice':
            bound = lambda x: None if x == 'n' else int(x)      # `n` = an open bound; bounds may be negative
            self.seq(t[1], int(t[2]))[bound(t[3]):bound(t[4])] = self.optrefs(t[5])
        elif op == 'sliceall':
            self.seq(t[1], int(t[2]))[:] = self.optrefs(t[3])
        elif op == 'ins':
            self.seq(t[1], int(t[2])).insert(int(t[3]), self.ref(t[4]))
        elif op == 'app':
            self.seq(t[1], int(t[2])).append(self.ref(t[3]))
        elif op == 'ext':
            self.seq(t[1], int(t[2])).extend(self.refs(t[3]))
        elif op == 'rep':
            self.seq(t[1], int(t[2])).replace(self.ref(t[3]), self.optref(t[4]))
        elif op == 'pop':
            r = self.seq(t[1], int(t[2])).pop(int(t[3]))
            pre = f'ret={self.name(r)} '
        elif op == 'rem':
            self.seq(t[1], int(t[2])).remove(self.ref(t[3]))
        elif op == 'clr':
            self.seq(t[1], int(t[2])).clear()
        elif op == 'emp':
            self.seq(t[1], int(t[2])).empty()
        elif op == 'dsrc':
            self.ref(t[1]).disconnect_source()
        elif op == 'dsnk':
            self.ref(t[1]).disconnect_sink()
        elif op == 'disc':
            self.ref(t[1]).disconnect()
        elif op == 'udisc':
            def lst(x):
                if x == '-': return None
                if x == '[]': return []
                return [self.portref(y) for y in x.split(',')]
            un, inl, outl = self.unit(t[1]), lst(t[2]), lst(t[3])
            un.disconnect(inlets=inl, outlets=outl, join_ends=(t[4] == '1'))
        elif op == 'tpo':
            self.unit(t[1]).take_place_of(self.unit(t[2]))
        elif op == 'rww':
            self.unit(t[1]).replace_with(self.unit(t[2]))
        elif op == 'rwn':
            self.unit(t[1]).replace_with(None)
        elif op == 'recon':
            def port(x):
                if x == '-': return (None, None)
                u, i = x.split(':'); return (self.unit(u), int(i))
            (su, si), (ku, ki) = port(t[1]), port(t[3])
            net.Connection(su, si, self.ref(t[2]), ki, ku).reconnect()
        elif op == 'uins':
            def pr(x): return None if x == '-' else self.portref(x)
            un, st, a, b = self.unit(t[1]), self.ref(t[2]), pr(t[3]), pr(t[4])
            un.insert(st, inlet=a, outlet=b)
        elif op == 'pipe_s_i_u':
            st, un = self.ref(t[1]), self.unit(t[3])
            st - int(t[2]) - un
        elif op == 'pipe_u_i_s':
            un, st = self.unit(t[1]), self.ref(t[3])
            un ** int(t[2]) ** st
        elif op == 'pipe_u_u':
            a, b = self.unit(t[1]), self.unit(t[2])
            a - b
        elif op == 'pipe_ss_u':
            ss, un = tuple(self.optrefs(t[1])), self.unit(t[2])
            ss - un
        elif op == 'pipe_u_ss':
            un, ss = self.unit(t[1]), tuple(self.optrefs(t[2]))
            un - ss
        elif op == 'pipe_ls_u':
            ss, un = list(self.optrefs(t[1])), self.unit(t[2])
            ss - un
        elif op == 'pipe_u_ls':
            un, ss = self.unit(t[1]), list(self.optrefs(t[2]))
            un - ss
        elif op == 'pipe_s_u':
            st, un = self.ref(t[1]), self.unit(t[2])
            st - un
        elif op == 'pipe_u_s':
            un, st = self.unit(t[1]), self.ref(t[2])
            un - st
        else:
            raise ErrorInOp('unknown op ' + line)
        self.register()
        return pre + self.show()


def opkind(line):
    return line.split(' ')[0]


def moves(before, after):
    """how the pointers of the placeholder objects that existed before the operation changed"""
    kinds = set()
    for (b, a) in zip(before, after):
        for x, y in zip(b, a):
            if x is y: continue
            if x is not None and y is not None: kinds.add('unit-to-unit')
            elif x is None: kinds.add('docked-on-new-side')
            else: kinds.add('undocked')
    return kinds


def describe(line, who, clause, k, fixed):
    fx = 'fixed' if fixed else 'var'
    what = 'a stream' if who == 's' else 'a placeholder object'
    sig = f'{opkind(line)}/{fx}:{clause}' if who == 's' else f'{opkind(line)}/{fx}:placeholder:{clause}'
    return sig, (f'after `{line}` a port list and {what} disagree: {clause} '
                 f'({"fixed" if fixed else "variable"}-size {"ins" if k == "i" else "outs"})')


def run_ops(ops):
    """Run a history on the real objects.  Per line: the canonical state, prefixed with the
    Python-evaluated precondition flag; the oracle is evaluated after every successful operation (a
    failure is set aside only if this flag AND the model's flag are off, see `filter_failures`)."""
    U = Universe()
    MON.reset()
    outs, failures, dead = [], [], False
    changed = False
    phmoves = []          # (op_index, op kind, kind of move)
    stats = {'ops': [],          # (op kind, 'judged' | 'unjudged' | 'raised' | 'bad')
             'post_exc': []}     # (op kind, consistent?) for raising ops after an in-precondition history
    prev = U.show()
    broken = False
    for i, line in enumerate(ops):
        if dead:
            outs.append('dead'); continue
        before = U.pointers()
        pre_before = MON.pre
        try:
            o = U.apply(line)
        except ErrorInOp:
            raise
        except BadRef:
            outs.append('bad-op'); dead = True
            stats['ops'].append((opkind(line), 'bad'))
            continue
        except Exception as e:
            for cls, nm in ERRMAP:
                if isinstance(e, cls):
                    outs.append('err=' + nm); break
            else:
                outs.append('err=' + type(e).__name__)
            dead = True
            stats['ops'].append((opkind(line), 'raised'))
            # the state a raising call leaves behind is outside the property (the call was rejected);
            # it is inspected all the same and reported in the evidence
            if pre_before and not broken:
                try:
                    U.register()
                    stats['post_exc'].append((opkind(line), not U.invariant_failures()))
                except Exception:
                    stats['post_exc'].append((opkind(line), False))
            continue
        outs.append(f'pre={1 if MON.pre else 0} ' + o)
        stats['ops'].append((opkind(line), 'judged' if MON.pre else 'unjudged'))
        now = U.show()
        if now != prev and opkind(line) not in ('unit', 'stream'): changed = True
        prev = now
        for mk in moves(before, U.pointers()):
            phmoves.append((i, opkind(line), mk))
        if not broken:     # once the invariant is broken every later state is tainted: stop judging
            for who, (clause, k, fixed) in U.invariant_failures()[:1]:
                broken = True
                sig, what = describe(line, who, clause, k, fixed)
                failures.append({'signature': sig, 'op_index': i, 'what': what, 'py_pre': MON.pre})
    return U, outs, failures, changed, phmoves, stats


def run_impl(case: Case) -> ImplResult:
    U, outs, failures, changed, phmoves, stats = run_ops(case.ops)
    tags = sorted({opkind(l) for l in case.ops})
    tags += ['err:' + o[4:] for o in outs if o.startswith('err=')]
    tags += sorted({f'ph-moved:{mk}' for (_, _, mk) in phmoves})
    tags += sorted({f'ph-moved:unit-to-unit/{k}' for (_, k, mk) in phmoves if mk == 'unit-to-unit'})
    if any(t[0] in 'm' or (t[0] == 'p' and '.' in t) for l in case.ops for t in l.replace(',', ' ').split(' ')[1:] if t):
        tags.append('placeholder-operand')
    if any(not ok for (_, ok) in stats['post_exc']):
        tags.append('post-exception:inconsistent')
    res = ImplResult(model_in=list(case.ops), outs=outs, failures=failures, tags=tags,
                     nontrivial=(tuple(case.ops) if changed else None))
    res.phmoves = phmoves
    res.stats = stats
    # length of the history proper: operations after the prelude (`stream` / `unit` lines at the front)
    n0 = 0
    for l in case.ops:
        if opkind(l) in ('stream', 'unit'): n0 += 1
        else: break
    res.length = sum(1 for o in outs[n0:] if o.startswith('pre='))
    res.judged_length = sum(1 for o in outs[n0:] if o.startswith('pre=1'))
    return res


# The model's precondition flag is part of the compared line: `pre=<0|1> <state>` must be identical,
# so a monitor in the model that is too eager (or too lax) shows up as a disagreement.

def filter_failures(res, model_out):
    """An oracle failure is set aside only when BOTH independent evaluations of the stated preconditions
    — the Python monitor on the real objects and the model's flag — say that the history had left the
    preconditions by then.  (The Python monitor sees the primitive calls the real code makes; a changed
    code path that calls `append` on a docked stream must not be able to excuse itself that way, and a
    model monitor that is too eager must not be able to hide a failure either.  Any difference between
    the two flags is reported as a disagreement in its own right.)"""
    keep, res.set_aside = [], []
    for f in res.failures:
        i = f['op_index']
        model_pre = i < len(model_out) and model_out[i].startswith('pre=1')
        if f.get('py_pre', True) or model_pre: keep.append(f)
        else: res.set_aside.append(f['signature'])
    return keep


def model_tags(line):
    return ['pre=0'] if line.startswith('pre=0') else []


def extra_evidence(executed, model_outs):
    """exercise rates: how often existing placeholder objects were carried between units (and how often
    inside the preconditions); how long the histories really are; per operation kind how many executions
    were judged by the oracle (precondition flag still on), not judged, or raised; which raw oracle failures
    were set aside because the history had left the preconditions; what raising calls leave behind"""
    ops_total = ops_pre = cases_any = cases_pre = 0
    by_kind = {}
    lengths, judged = [], []
    per_op, filtered, post = {}, {}, {'raising_ops_after_in_precondition_history': 0,
                                      'left_inconsistent': 0, 'left_inconsistent_by_op': {}}
    def bucket(n):
        for lo, hi in ((0, 4), (5, 9), (10, 19), (20, 29), (30, 39), (40, 49)):
            if lo <= n <= hi: return f'{lo}-{hi}'
        return '50+'
    for (case, res) in executed:
        outs = res.outs
        pm = [x for x in getattr(res, 'phmoves', []) if x[2] == 'unit-to-unit']
        if pm: cases_any += 1
        seen_pre = False
        for (i, k, _) in pm:
            ops_total += 1
            if i < len(outs) and outs[i].startswith('pre=1'):
                ops_pre += 1; seen_pre = True
                by_kind[k] = by_kind.get(k, 0) + 1
        if seen_pre: cases_pre += 1
        if case.meta.get('random'):
            lengths.append(getattr(res, 'length', 0)); judged.append(getattr(res, 'judged_length', 0))
        st = getattr(res, 'stats', None)
        if st:
            for (k, what) in st['ops']:
                d = per_op.setdefault(k, {'judged': 0, 'unjudged': 0, 'raised': 0, 'bad': 0})
                d[what] += 1
            for (k, ok) in st['post_exc']:
                post['raising_ops_after_in_precondition_history'] += 1
                if not ok:
                    post['left_inconsistent'] += 1
                    post['left_inconsistent_by_op'][k] = post['left_inconsistent_by_op'].get(k, 0) + 1
        for sig in getattr(res, 'set_aside', []):
            filtered[sig] = filtered.get(sig, 0) + 1
    def hist(xs):
        h = {}
        for n in xs: h[bucket(n)] = h.get(bucket(n), 0) + 1
        order = ['0-4', '5-9', '10-19', '20-29', '30-39', '40-49', '50+']
        return {k: h[k] for k in order if k in h}
    ev = {'placeholder_moves': {'ops_moving_a_placeholder_unit_to_unit': ops_total,
                                'of_which_within_preconditions': ops_pre,
                                'cases_with_such_an_op': cases_any,
                                'cases_with_such_an_op_within_preconditions': cases_pre,
                                'within_preconditions_by_op_kind': dict(sorted(by_kind.items()))},
          'random_history_lengths': {
              'cases': len(lengths),
              'successful_ops_after_prelude': hist(lengths),
              'of_which_judged_by_the_oracle': hist(judged),
              'mean': round(sum(lengths) / max(1, len(lengths)), 1), 'max': max(lengths, default=0),
              'mean_judged': round(sum(judged) / max(1, len(judged)), 1), 'max_judged': max(judged, default=0)},
          'per_op_kind': {k: per_op[k] for k in sorted(per_op)},
          'oracle_failures_outside_preconditions_by_signature': dict(sorted(filtered.items())),
          'states_left_by_raising_calls': post}
    return ev


# --------------------------------------------------------------------------
# generation
# --------------------------------------------------------------------------

def placeholder_name(rng, U, x):
    """`mN`, or (sometimes) the positional name of a port that holds it now"""
    if rng.random() < 0.3:
        spots = [(k, u, i) for u, un in enumerate(U.units) for k in 'io'
                 for i, y in enumerate(U.seq(k, u)._streams) if y is x]
        if spots:
            k, u, i = rng.choice(spots)
            return f'p{k}.{u}.{i}'
    return U.name(x)


def choose_placeholder(rng, U, k, undocked_only=False, not_in=None):
    """a placeholder operand, mostly one that keeps the operation inside the preconditions: for an
    assignment one that is not in the target list (preferably one listed at ANOTHER unit, so that it
    has to move), for append/insert one that is not docked on this side"""
    attr = '_sink' if k == 'i' else '_source'
    allm = list(U.missing)
    if not allm: return None
    if undocked_only:
        good = [m for m in allm if getattr(m, attr) is None]
    elif not_in is not None:
        good = [m for m in allm if not any(y is m for y in not_in)]
    else:
        good = allm
    if good and rng.random() < 0.9:
        # prefer objects that are docked somewhere (on either side): those are the ones that travel
        live = [m for m in good if m._sink is not None or m._source is not None]
        x = rng.choice(live) if live and rng.random() < 0.8 else rng.choice(good)
    else:
        x = rng.choice(allm)
    return placeholder_name(rng, U, x)


def choose_stream(rng, U, k, allow_placeholder=0.2, undocked_only=False, not_in=None):
    """a stream (or placeholder) reference; mostly valid w.r.t. the preconditions"""
    if rng.random() < allow_placeholder:
        r = choose_placeholder(rng, U, k, undocked_only=undocked_only, not_in=not_in)
        if r is not None: return r
    attr = '_sink' if k == 'i' else '_source'
    idx = list(range(len(U.streams)))
    if undocked_only:
        good = [n for n in idx if getattr(U.streams[n], attr) is None]
    elif not_in is not None:
        good = [n for n in idx if not any(y is U.streams[n] for y in not_in)]
    else:
        good = idx
    if good and rng.random() < 0.92:
        return f's{rng.choice(good)}'
    if idx:
        return f's{rng.choice(idx)}'
    return None


def gen_op(rng, U):
    nu = len(U.units)
    if nu == 0: return 'stream'
    k = rng.choice('io')
    u = rng.randrange(nu)
    seq = U.seq(k, u)
    n = len(seq._streams)
    fixed = seq._fixed_size
    kind = rng.choices(
        ['set', 'slice', 'sliceall', 'ins', 'app', 'ext', 'rep', 'pop', 'rem', 'clr', 'emp', 'dsrc', 'dsnk',
         'disc', 'udisc', 'tpo', 'rww', 'rwn', 'recon', 'uins', 'pipe_s_i_u', 'pipe_u_i_s', 'pipe_u_u',
         'pipe_ss_u', 'pipe_u_ss', 'stream', 'unit', 'slicefrom',
         'pipe_s_u', 'pipe_u_s', 'pipe_ls_u', 'pipe_u_ls', 'portset', 'portfrom', 'sports', 'own'],
        [14, 6, 4, 6, 6, 3, 6, 7, 6, 3, 3, 3, 3,
         3, 5, 4, 3, 3, 4, 5, 4, 4, 6,
         3, 3, 2, 2, 4,
         4, 4, 2, 2, 3, 3, 4, 2])[0]
    if kind == 'stream': return 'stream'
    if kind == 'unit':
        return gen_unit(rng, U, rng.choice(SHAPES))
    if kind == 'own':
        return f'own {u} {"-" if rng.random() < 0.3 else rng.randrange(nu)}'
    if kind in ('ins', 'app', 'ext') and fixed and rng.random() < 0.9:
        # these are rejected on fixed-size lists: mostly aim at an extendable one
        var = [(k2, v) for v in range(nu) for k2 in 'io' if not U.seq(k2, v)._fixed_size]
        if var:
            k, u = rng.choice(var); seq = U.seq(k, u); n = len(seq._streams); fixed = False
    if kind in ('pipe_s_u', 'pipe_u_s'):
        k = 'i' if kind == 'pipe_s_u' else 'o'
        s = choose_stream(rng, U, k, allow_placeholder=0.03)
        if s is None: return 'stream'
        return f'pipe_s_u {s} {u}' if kind == 'pipe_s_u' else f'pipe_u_s {u} {s}'
    if kind == 'portfrom':
        # the port that holds x now gets s
        held = [x for x in U.streams + U.missing if getattr(x, '_sink' if k == 'i' else '_source') is not None]
        if not held or rng.random() < 0.05: held = U.streams + U.missing
        if not held: return 'stream'
        x = rng.choice(held)
        tgt = getattr(x, '_sink' if k == 'i' else '_source')
        lst = (tgt.ins if k == 'i' else tgt.outs)._streams if tgt is not None else None
        s = choose_stream(rng, U, k, allow_placeholder=0.2, not_in=lst)
        if s is None: return 'stream'
        return f'portfrom {k} {U.name(x)} {s}'
    if kind == 'sports':
        held = [x for x in U.streams + U.missing if getattr(x, '_sink' if k == 'i' else '_source') is not None]
        if not held: return 'stream'
        xs = rng.sample(held, min(len(held), rng.randrange(1, 3)))
        used = []
        for x in xs:
            tgt = getattr(x, '_sink' if k == 'i' else '_source')
            used += list((tgt.ins if k == 'i' else tgt.outs)._streams)
        ss = []
        for _ in range(len(xs) if rng.random() < 0.93 else len(xs) + 1):
            t = choose_stream(rng, U, k, allow_placeholder=0.2, not_in=used)
            if t is None: return 'stream'
            ss.append(t)
            try: used.append(U.ref(t))
            except Exception: pass
        if rng.random() < 0.45:
            return f'sport {k} {",".join(U.name(x) for x in xs)} {rng.randrange(len(xs) + (rng.random() < 0.05))} {ss[0]}'
        return f'sports {k} {",".join(U.name(x) for x in xs)} {",".join(ss)}'
    if kind in ('set', 'pipe_s_i_u', 'pipe_u_i_s', 'portset'):
        if kind == 'pipe_s_i_u': k = 'i'; seq = U.seq(k, u); n = len(seq._streams)
        if kind == 'pipe_u_i_s': k = 'o'; seq = U.seq(k, u); n = len(seq._streams)
        i = rng.randrange(n + 1) if (n == 0 or rng.random() < 0.1) else rng.randrange(n)
        if kind == 'set' and n and rng.random() < 0.12:
            i = -rng.randrange(1, n + 1) if rng.random() < 0.92 else -(n + 1)      # `seq[-1] = s`
        if kind == 'set' and rng.random() < 0.12:
            return f'set {k} {u} {i} none'
        s = choose_stream(rng, U, k, allow_placeholder=(0.25 if kind in ('set', 'portset') else 0.02),
                          not_in=seq._streams)
        if s is None: return 'stream'
        if kind == 'set': return f'set {k} {u} {i} {s}'
        if kind == 'portset': return f'portset {k} {u} {i} {s}'
        if kind == 'pipe_s_i_u': return f'pipe_s_i_u {s} {i} {u}'
        return f'pipe_u_i_s {u} {i} {s}'
    if kind == 'slicefrom':
        # slice assignment of (a slice of) another port list, placeholders included:
        # `V.ins[a:b] = W.outs[c:d]` — the shape that carries vacant ports from unit to unit
        v = rng.randrange(nu); k2 = rng.choice('io')
        src = U.seq(k2, v)._streams
        if not src: return f'sliceall {k} {u} []'
        c = rng.randrange(len(src)); d = rng.randrange(c + 1, len(src) + 1)
        a = rng.randrange(n + 1); b = rng.randrange(a, n + 1)
        if rng.random() < 0.5: a, b = 0, n
        kept = seq._streams[:a] + seq._streams[b:]
        items = [x for x in src[c:d] if not any(y is x for y in kept) or rng.random() < 0.05]
        if fixed:
            room = seq._size - len(kept)
            if rng.random() < 0.95: items = items[:max(room, 0)]
        names = [U.name(x) if is_stream(x) else placeholder_name(rng, U, x) for x in items]
        it = ','.join(names) if names else '[]'
        return f'slice {k} {u} {a} {b} {it}'
    if kind in ('slice', 'sliceall', 'pipe_ss_u', 'pipe_u_ss', 'pipe_ls_u', 'pipe_u_ls'):
        if kind in ('pipe_ss_u', 'pipe_ls_u'): k = 'i'
        if kind in ('pipe_u_ss', 'pipe_u_ls'): k = 'o'
        seq = U.seq(k, u); n = len(seq._streams); fixed = seq._fixed_size
        if kind == 'slice':
            a = rng.randrange(n + 1); b = rng.randrange(n + 2)
            if rng.random() < 0.8 and b < a: a, b = b, a
        else:
            a, b = 0, n
        kept = seq._streams[:a] + seq._streams[max(a, b):]
        room = (seq._size - len(kept)) if fixed else 3
        if rng.random() < 0.08: room += 1
        m = rng.randrange(max(room, 0) + 1)
        items, used = [], list(kept)
        for _ in range(m):
            if rng.random() < 0.15 and kind in ('slice', 'sliceall'):
                items.append('none'); continue
            s = choose_stream(rng, U, k, allow_placeholder=0.2, not_in=used)
            if s is None: continue
            items.append(s)
            try: used.append(U.ref(s))
            except Exception: pass
        it = ','.join(items) if items else '[]'
        if kind == 'slice':
            # the same slice written with an open or a negative bound (`seq[:-1]`, `seq[-2:]`, `seq[a:]`)
            if n and a <= n and b <= n and rng.random() < 0.3:
                r = rng.random()
                a2 = 'n' if (a == 0 and r < 0.5) else (a - n if (a < n and r < 0.8) else a)
                b2 = 'n' if (b == n and rng.random() < 0.6) else (b - n if (b < n and rng.random() < 0.8) else b)
                return f'slice {k} {u} {a2} {b2} {it}'
            return f'slice {k} {u} {a} {b} {it}'
        if kind == 'sliceall': return f'sliceall {k} {u} {it}'
        if kind in ('pipe_ss_u', 'pipe_ls_u'):
            if not items: return f'sliceall i {u} []'
            return f'{kind} {it} {u}'
        if not items: return f'sliceall o {u} []'
        return f'{kind} {u} {it}'
    if kind in ('ins', 'app'):
        s = choose_stream(rng, U, k, allow_placeholder=0.2, undocked_only=True)
        if s is None: return 'stream'
        if kind == 'app': return f'app {k} {u} {s}'
        i = rng.randrange(n + 2)
        if rng.random() < 0.25: i = -rng.randrange(1, n + 3)        # `seq.insert(-1, s)`
        return f'ins {k} {u} {i} {s}'
    if kind == 'ext':
        m = rng.randrange(3)
        items = []
        for _ in range(m):
            s = choose_stream(rng, U, k, allow_placeholder=0.15, undocked_only=True)
            if s and s not in items: items.append(s)
        return f'ext {k} {u} {",".join(items) if items else "[]"}'
    if kind == 'rep':
        if n == 0: return 'stream'
        i = rng.randrange(n)
        x = seq._streams[i]
        a = (f'p{k}.{u}.{i}' if rng.random() < 0.5 else U.name(x)) if (not is_stream(x) or rng.random() < 0.3) \
            else U.name(x)
        if rng.random() < 0.08:
            a = choose_stream(rng, U, k) or a
        if rng.random() < 0.15: return f'rep {k} {u} {a} none'
        b = choose_stream(rng, U, k, allow_placeholder=0.2, not_in=seq._streams)
        if b is None: return 'stream'
        return f'rep {k} {u} {a} {b}'
    if kind == 'pop':
        i = rng.randrange(n + 1) if (n == 0 or rng.random() < 0.08) else rng.randrange(n)
        if n and rng.random() < 0.15: i = -rng.randrange(1, n + 1)      # `seq.pop(-1)`
        return f'pop {k} {u} {i}'
    if kind == 'rem':
        if n and rng.random() < 0.92:
            i = rng.randrange(n)
            x = seq._streams[i]
            a = U.name(x) if (is_stream(x) or rng.random() < 0.5) else f'p{k}.{u}.{i}'
        else:
            a = choose_stream(rng, U, k)
            if a is None: return 'stream'
        return f'rem {k} {u} {a}'
    if kind in ('clr', 'emp'):
        return f'{kind} {k} {u}'
    if kind in ('dsrc', 'dsnk', 'disc'):
        s = choose_stream(rng, U, k, allow_placeholder=0.3)
        if s is None: return 'stream'
        return f'{kind} {s}'
    if kind == 'udisc':
        un = U.units[u]
        def pick(seq):
            r = rng.random()
            if r < 0.45: return '-'
            lst = seq._streams
            if not lst: return '[]'
            m = rng.randrange(min(len(lst), 2) + 1)
            idxs = rng.sample(range(len(lst)), m)
            out = []
            for i in idxs:
                x = lst[i]
                if is_stream(x) and rng.random() < 0.6: out.append(U.name(x))
                elif not is_stream(x) and rng.random() < 0.03: out.append(U.name(x))   # rejected by the code
                else: out.append(f'i{i}')
            return ','.join(out) if out else '[]'
        inl, outl = pick(un.ins), pick(un.outs)
        join = '1' if rng.random() < 0.3 else '0'
        return f'udisc {u} {inl} {outl} {join}'
    if kind in ('tpo', 'rww', 'pipe_u_u'):
        v = rng.randrange(nu)
        return f'{kind} {u} {v}'
    if kind == 'rwn':
        return f'rwn {u}'
    if kind == 'recon':
        s = choose_stream(rng, U, k, allow_placeholder=0.1)
        if s is None: return 'stream'
        def port(kk, v=None):
            if v is None and rng.random() < 0.35: return '-'
            if v is None: v = rng.randrange(nu)
            m = len(U.seq(kk, v)._streams)
            if m == 0: return '-'
            return f'{v}:{rng.randrange(m)}'
        owned = [(a, U.units.index(un._owner)) for a, un in enumerate(U.units)
                 if getattr(un, '_owner', None) is not None and any(un._owner is x for x in U.units)]
        if owned and rng.random() < 0.5:
            # a connection between an auxiliary unit and its owner (either direction): left alone by reconnect
            a, o = rng.choice(owned)
            if rng.random() < 0.5: a, o = o, a
            return f'recon {port("o", a)} {s} {port("i", o)}'
        return f'recon {port("o")} {s} {port("i")}'
    if kind == 'uins':
        # a stream (sometimes a placeholder that connects two units) with both ends connected is the intended use
        both = [x for x in U.streams + (U.missing if rng.random() < 0.2 else [])
                if x._source is not None and x._sink is not None]
        if both and rng.random() < 0.9: x = rng.choice(both)
        elif U.streams: x = rng.choice(U.streams)
        else: return 'stream'
        s = U.name(x)
        if rng.random() < 0.85:
            # arguments the code accepts: an outlet where one is needed, an inlet where one is needed
            for _ in range(4):
                un = U.units[u]
                if un is not x._source and un is not x._sink: break
                u = rng.randrange(nu)
            un = U.units[u]
            outs, ins = un.outs._streams, un.ins._streams
            if not un._outs_size_is_fixed and rng.random() < 0.8: outlet = '-'
            elif un._outs_size_is_fixed and un._N_outs == 1 and rng.random() < 0.7: outlet = '-'
            elif outs:
                j = rng.randrange(len(outs))
                outlet = U.name(outs[j]) if (is_stream(outs[j]) and rng.random() < 0.5) else f'i{j}'
            else: outlet = '-'
            added = outlet == '-' and not un._outs_size_is_fixed
            need1 = un._ins_size_is_fixed or added
            if (not need1 or un._N_ins == 1) and rng.random() < 0.75: inlet = '-'
            else:
                reals = [y for y in ins if is_stream(y)]
                if reals and rng.random() < 0.5: inlet = U.name(rng.choice(reals))
                elif outs: inlet = f'i{rng.randrange(len(outs))}'     # an integer inlet indexes `outs` (sic)
                else: inlet = '-'
            return f'uins {u} {s} {inlet} {outlet}'
        un = U.units[u]
        def pr(seq, side):
            r = rng.random()
            if r < 0.45 or not seq._streams: return '-'
            i = rng.randrange(len(seq._streams))
            x = seq._streams[i]
            if is_stream(x) and rng.random() < 0.5: return U.name(x)
            if not is_stream(x) and rng.random() < 0.03: return U.name(x)   # rejected by the code
            return f'i{i}'
        return f'uins {u} {s} {pr(un.ins, "i")} {pr(un.outs, "o")}'
    return 'stream'


def gen_unit(rng, U, shape):
    ni, fi, no, fo = shape
    def arg(k, n, fx):
        r = rng.random()
        if r < 0.30: return 'M'
        if r < 0.48: return 'F'
        if r < 0.62 and (n > 0 or not fx or rng.random() < 0.1):
            # the single forms `ins=feed`, `ins='ID'`
            if rng.random() < 0.3: return 'S:new'
            s = choose_stream(rng, U, k, allow_placeholder=0.15)
            return 'S:' + s if s else 'S:new'
        m = rng.randrange(n + 1) if fx else rng.randrange(n + 2)
        if rng.random() < 0.05: m = n + 1
        items = []
        for _ in range(m):
            r = rng.random()
            if r < 0.2: items.append('new')
            elif r < 0.3: items.append('none')
            else:
                s = choose_stream(rng, U, k, allow_placeholder=0)
                if s and s not in items: items.append(s)
                else: items.append('new')
        return 'L:' + ','.join(items)
    return f'unit {ni} {fi} {arg("i", ni, fi)} {no} {fo} {arg("o", no, fo)}'


def gen_case_plain(rng, n_units, n_streams, length):
    """a history that simply stops at the first operation the code rejects (broad error-path coverage)"""
    U = Universe()
    ops = []
    def do(line):
        ops.append(line)
        try:
            U.apply(line)
            return True
        except ErrorInOp:
            raise
        except Exception:
            return False
    for _ in range(n_streams): do('stream')
    shapes = [rng.choice(SHAPES) for _ in range(n_units)]
    if n_units >= 3: shapes[:3] = SHAPES[:3]
    for sh in shapes:
        if not do(gen_unit(rng, U, sh)): return Case(ops, {'random': True, 'plain': True})
    for _ in range(length):
        if not do(gen_op(rng, U)): break
    return Case(ops, {'random': True, 'plain': True})


def user_level_pre(U, line):
    """The stated precondition of a single-list operation, read off the ARGUMENTS of the call on the real
    objects, before the call and without looking at what the code does inside: True / False, or None for
    operations whose preconditions concern what they do internally (unit-level operations, slices).
    The generator uses it so that the code under test cannot talk an in-precondition call out of a history:
    an operation is dropped as 'outside the preconditions' only if this reading agrees."""
    t = line.split(' ')
    op = t[0]
    try:
        if op in ('set', 'portset'):
            if t[4] == 'none': return True
            x = U.ref(t[4]); return not any(y is x for y in U.seq(t[1], int(t[2]))._streams)
        if op == 'pipe_s_i_u':
            x = U.ref(t[1]); return not any(y is x for y in U.seq('i', int(t[3]))._streams)
        if op == 'pipe_u_i_s':
            x = U.ref(t[3]); return not any(y is x for y in U.seq('o', int(t[1]))._streams)
        if op == 'rep':
            if t[4] == 'none': return True
            x = U.ref(t[4]); return not any(y is x for y in U.seq(t[1], int(t[2]))._streams)
        if op in ('app', 'ins', 'ext'):
            seq = U.seq(t[1], int(t[2]))
            if seq._fixed_size: return None
            xs = U.refs(t[3]) if op == 'ext' else [U.ref(t[3] if op == 'app' else t[4])]
            attr = '_sink' if t[1] == 'i' else '_source'
            return all(getattr(x, attr) is None for x in xs) and len({id(x) for x in xs}) == len(xs)
    except Exception:
        return None
    return None


def gen_case(rng, n_units, n_streams, length, tail=0.3):
    """a history of `length` operations that the code accepts and that stay inside the stated
    preconditions (judged by the Python monitor on the real objects): a proposed operation that raises
    or leaves the preconditions is dropped and generation continues from the accepted prefix (the
    universe is rebuilt from it whenever the rejected call left any trace).  With probability `tail` a
    few unfiltered operations follow at the end (they may raise or leave the preconditions)."""
    U = Universe()
    MON.reset()
    ops = []

    def rebuild():
        V = Universe()
        MON.reset()
        for l in ops: V.apply(l)
        return V

    left = False       # the monitor says the history left the preconditions although the call itself was inside

    def attempt(line):
        nonlocal U, left
        before, nu = U.show(), len(U.units)
        expect = user_level_pre(U, line)
        try:
            U.apply(line)
        except ErrorInOp:
            raise
        except Exception:
            if U.show() != before or len(U.units) != nu: U = rebuild()
            return False
        if not MON.pre:
            if expect is True:
                # the call is inside the stated preconditions, yet a primitive operation the code performed
                # for it was not: keep it — the run will judge it (model flag still on) — and stop here
                ops.append(line); left = True
                return True
            U = rebuild()
            return False
        ops.append(line)
        return True

    for _ in range(n_streams): attempt('stream')
    shapes = [rng.choice(SHAPES) for _ in range(n_units)]
    if n_units >= 3: shapes[:3] = SHAPES[:3]
    for sh in shapes:
        for _ in range(6):
            if attempt(gen_unit(rng, U, sh)): break
    n0, tries = len(ops), 0
    while len(ops) - n0 < length and tries < 6 * length + 30 and not left:
        tries += 1
        attempt(gen_op(rng, U))
    if left: return Case(ops, {'random': True, 'target': length})
    if rng.random() < tail:
        for _ in range(rng.randrange(1, 4)):
            line = gen_op(rng, U)
            ops.append(line)
            try: U.apply(line)
            except ErrorInOp: raise
            except Exception: break
    return Case(ops, {'random': True, 'target': length})


# The empty three-unit / five-stream universe.  Its placeholder objects:
#   U0.i=[m0,m1] U0.o=[m2]   U1.i=[m3] U1.o=[m4,m5]   U2.i=[m6,m7] U2.o=[m8,m9]
BASE = ['stream'] * 5 + ['unit 2 1 M 1 1 M', 'unit 1 0 M 2 1 M', 'unit 2 1 M 2 0 M']
# A connected line U0 -s1-> U1 -s2-> U2 with vacant ports, plus a bare one-in/one-out unit U3:
#   U0.i=[s0,m0] U0.o=[s1]   U1.i=[s1] U1.o=[s2,m1]   U2.i=[s2,s3] U2.o=[s4]   U3.i=[m2] U3.o=[m3]
BASE2 = ['stream'] * 5 + ['unit 2 1 L:s0 1 1 L:s1', 'unit 1 0 L:s1 2 1 L:s2', 'unit 2 1 L:s2,s3 2 0 L:s4',
                          'unit 1 1 M 1 1 M']


def alphabet():
    """the finite operation alphabet over the 3-unit / 5-stream universe (indices 0..1, whole-list
    slices of up to two streams, placeholder objects of every unit as operands); used for exhaustive
    enumeration"""
    ops = []
    S = [f's{i}' for i in range(5)]
    M = ['m0', 'm4', 'm6', 'm8']           # one placeholder of U0.ins, U1.outs, U2.ins, U2.outs
    for u in range(3):
        for k in 'io':
            for i in (0, 1):
                for s in S + ['none'] + M:
                    ops.append(f'set {k} {u} {i} {s}')
                ops.append(f'pop {k} {u} {i}')
                for s in S[:3] + M[:2]:
                    ops.append(f'ins {k} {u} {i} {s}')
            for s in S + M[:2]:
                ops.append(f'app {k} {u} {s}')
            for s in S + [f'p{k}.{u}.0']:
                ops.append(f'rem {k} {u} {s}')
            ops.append(f'clr {k} {u}'); ops.append(f'emp {k} {u}')
            ops.append(f'sliceall {k} {u} []')
            for s in S[:3]:
                ops.append(f'sliceall {k} {u} {s}')
            ops.append(f'sliceall {k} {u} s0,s1'); ops.append(f'sliceall {k} {u} s3,none')
            ops.append(f'sliceall {k} {u} m3,s0'); ops.append(f'sliceall {k} {u} m9')
            ops.append(f'slice {k} {u} 1 2 m5')
            ops.append(f'rep {k} {u} p{k}.{u}.0 s4'); ops.append(f'rep {k} {u} p{k}.{u}.0 none')
            ops.append(f'rep {k} {u} p{k}.{u}.0 m1'); ops.append(f'rep {k} {u} p{k}.{u}.0 m5')
            # negative indices, ports
            ops.append(f'set {k} {u} -1 s0'); ops.append(f'set {k} {u} -1 none'); ops.append(f'set {k} {u} -3 s1')
            ops.append(f'set {k} {u} -1 m4'); ops.append(f'pop {k} {u} -1'); ops.append(f'pop {k} {u} -2')
            ops.append(f'portset {k} {u} 0 s2'); ops.append(f'portset {k} {u} 1 m4')
            ops.append(f'portfrom {k} p{k}.{u}.0 s1'); ops.append(f'portfrom {k} s0 s1')
            # open / negative slice bounds, negative insert index
            ops.append(f'slice {k} {u} n -1 []'); ops.append(f'slice {k} {u} -1 n s0'); ops.append(f'slice {k} {u} -2 -1 s1')
            ops.append(f'slice {k} {u} n n s2,s3'); ops.append(f'slice {k} {u} 1 n m4')
            ops.append(f'ins {k} {u} -1 s0'); ops.append(f'ins {k} {u} -5 s1'); ops.append(f'ins {k} {u} -1 m4')
        # `stream - unit`, `unit - stream`, the same with lists
        for s in S[:3] + ['m0']:
            ops.append(f'pipe_s_u {s} {u}'); ops.append(f'pipe_u_s {u} {s}')
        ops.append(f'pipe_ls_u s0,s1 {u}'); ops.append(f'pipe_u_ls {u} s3'); ops.append(f'pipe_u_ls {u} s3,m0')
        # `stream - i - unit`, `unit ** i ** stream`: in range, at the end, past the end
        for i in (0, 1, 2, 3):
            ops.append(f'pipe_s_i_u s0 {i} {u}'); ops.append(f'pipe_u_i_s {u} {i} s0')
            ops.append(f'pipe_s_i_u s1 {i} {u}'); ops.append(f'pipe_u_i_s {u} {i} s1')
        ops.append(f'own {u} {(u + 1) % 3}')
        for v in range(3):
            if v != u:
                ops.append(f'tpo {u} {v}'); ops.append(f'pipe_u_u {u} {v}'); ops.append(f'rww {u} {v}')
        ops.append(f'rwn {u}')
        ops.append(f'udisc {u} - - 0'); ops.append(f'udisc {u} - - 1'); ops.append(f'udisc {u} i0 i0 0')
        for s in S[:2]:
            ops.append(f'uins {u} {s} - -')
    for s in S + ['m0', 'm2', 'm3', 'm5']:
        ops += [f'dsrc {s}', f'dsnk {s}', f'disc {s}']
    # constructing a unit with a single stream / a single ID / an explicit list (takes streams over)
    ops += ['unit 1 1 S:s0 1 1 M', 'unit 1 1 S:new 1 1 S:s1', 'unit 2 1 S:s0 2 1 S:m2', 'unit 1 0 S:m0 2 1 S:new',
            'unit 2 1 M 2 0 S:s0', 'unit 0 0 S:s0 1 0 M', 'unit 1 0 S:s1 2 1 M', 'unit 2 1 L:s0,s1 1 1 L:s2',
            'unit 1 0 L:s0,none,s1 2 1 L:new', 'unit 2 1 S:s0 1 1 S:s0']
    # StreamPorts, Connection.reconnect (with and without an owner relation)
    ops += ['sports i m0,m3 s0,s1', 'sports o m2,m4 s0,s1', 'sports i m0 s0,s1', 'sports i s0 s1',
            'sport i m0,m3 0 s0', 'sport i m0,m3 1 s1', 'sport o m2,m4 1 s2', 'sport i m6 1 s0', 'sport o m8,m9 0 m0',
            'recon 0:0 s0 1:0', 'recon 1:0 s1 0:1', 'recon - s0 0:0', 'recon 0:0 s0 -', 'recon 2:1 s2 2:0',
            'recon - s0 -']
    return ops


def alphabet2():
    """operation alphabet over the connected four-unit universe BASE2: the unit-level and slice-level
    operations that carry vacant ports (placeholder objects) from one unit to another"""
    ops = []
    S = [f's{i}' for i in range(5)]
    M = ['m0', 'm1', 'm2', 'm3']
    for u in range(4):
        for v in range(4):
            if v != u:
                ops.append(f'tpo {u} {v}'); ops.append(f'pipe_u_u {u} {v}'); ops.append(f'rww {u} {v}')
        ops.append(f'rwn {u}')
        ops.append(f'udisc {u} - - 0'); ops.append(f'udisc {u} - - 1')
        for s in S[:3] + M[:2]:
            ops.append(f'uins {u} {s} - -')
        ops.append(f'uins {u} s1 i0 i0'); ops.append(f'uins {u} s2 - i1')
        for k in 'io':
            for m in M:
                ops.append(f'set {k} {u} 0 {m}'); ops.append(f'set {k} {u} 1 {m}')
            for v in range(4):
                if v != u:
                    ops.append(f'sliceall {k} {u} p{k}.{v}.0,p{k}.{v}.1')
                    ops.append(f'slice {k} {u} 0 1 p{k}.{v}.1')
            ops.append(f'pop {k} {u} 0'); ops.append(f'pop {k} {u} 1')
            ops.append(f'emp {k} {u}'); ops.append(f'clr {k} {u}')
            ops.append(f'set {k} {u} 0 none'); ops.append(f'set {k} {u} 1 s3')
            for m in M[:2]:
                ops.append(f'app {k} {u} {m}'); ops.append(f'rem {k} {u} {m}')
    for s in S[:3] + M:
        ops += [f'dsrc {s}', f'dsnk {s}', f'disc {s}']
    for u in range(4):
        for s in ['s1', 's2', 's3', 'm1']:
            ops.append(f'pipe_s_u {s} {u}'); ops.append(f'pipe_u_s {u} {s}')
        ops.append(f'own {u} {(u + 1) % 4}')
        # pipe notation with an index: streams that are docked at another unit, index in range / at the end / past it
        for i in (0, 1, 2, 3):
            for s in ('s0', 's1', 's2', 's4'):
                ops.append(f'pipe_s_i_u {s} {i} {u}'); ops.append(f'pipe_u_i_s {u} {i} {s}')
        for k in 'io':
            ops.append(f'set {k} {u} -1 s3'); ops.append(f'pop {k} {u} -1')
            ops.append(f'portset {k} {u} 0 s3'); ops.append(f'portset {k} {u} 0 m1')
    ops += ['unit 1 1 S:s1 1 1 S:s2', 'unit 2 1 S:m0 1 1 S:m1', 'unit 1 0 S:s2 2 1 S:new', 'unit 2 1 L:s1,s2 2 0 S:s4',
            'unit 1 1 S:s0 1 1 M', 'unit 2 1 S:s3 2 1 S:s1',
            'portfrom i s1 s3', 'portfrom o s1 s3', 'portfrom i s2 m1', 'portfrom o s2 m0', 'portfrom i s4 s0',
            'sports i s1,s2 s3,s0', 'sports o s1,s2 s4,s0', 'sports i s0,s3 m1,s4',
            'sport i s1,s2 0 s3', 'sport i s1,s2 1 s0', 'sport o s1,s2 0 s4', 'sport o s2,s4 1 s3', 'sport i s0,s3 1 m1',
            'slice i 2 n -1 []', 'slice i 2 -1 n s0', 'slice o 1 -2 -1 s3', 'slice i 0 n -1 s3', 'slice o 2 n n s0',
            'ins i 1 -1 s3', 'ins o 2 -1 s0', 'ins i 1 -1 s0', 'ins o 2 -3 m0',
            'recon 0:0 s1 1:0', 'recon 1:0 s2 2:0', 'recon 0:0 s2 2:1', 'recon - s1 1:0', 'recon 0:0 s1 -',
            'recon 1:1 s4 3:0', 'recon 3:0 s1 0:1']
    return ops


def owner_grid():
    """`Connection.reconnect` between an auxiliary unit and its owner, both directions, over the connected
    4-unit universe: `own a b` (unit a is owned by b) followed by a reconnect whose source/sink are a and b"""
    cases = []
    for a in range(4):
        for b in range(4):
            if a == b: continue
            for s in ('s0', 's1', 's2', 's4'):
                for i in (0, 1):
                    for j in (0, 1):
                        cases.append(BASE2 + [f'own {a} {b}', f'recon {b}:{i} {s} {a}:{j}'])   # owner is the source
                        cases.append(BASE2 + [f'own {a} {b}', f'recon {a}:{i} {s} {b}:{j}'])   # owner is the sink
    return cases


def generate(rng, tier, index, nworkers):
    b = budget(tier)
    A, A2 = alphabet(), alphabet2()
    # exhaustive part: every sequence of length 1 (quick) / 2 (thorough) over the alphabets from the
    # empty 3-unit / 5-stream universe and from the connected 4-unit universe; plus every single op
    # from random reachable states
    if tier == 'thorough':
        pairs = [(BASE, a, c) for a in A for c in A] + [(BASE2, a, c) for a in A2 for c in A2]
        for j in range(index, len(pairs), nworkers):
            base, a, c = pairs[j]
            yield Case(base + [a, c], {'exhaustive': 2})
    else:
        singles = [(BASE, a) for a in A] + [(BASE2, a) for a in A2]
        for j in range(index, len(singles), nworkers):
            base, a = singles[j]
            yield Case(base + [a], {'exhaustive': 1})
        # the depth-2 sequences made of two placeholder-carrying operations (a sub-space of the thorough tier)
        movers = [a for a in A2 if a.split(' ')[0] in ('tpo', 'pipe_u_u', 'rww', 'rwn', 'uins', 'sliceall')]
        pairs = [(a, c) for a in movers for c in movers]
        for j in range(index, len(pairs), nworkers):
            yield Case(BASE2 + list(pairs[j]), {'exhaustive': 'movers-2'})
    G = owner_grid()
    for j in range(index, len(G), nworkers):
        yield Case(G[j], {'exhaustive': 'owner-grid'})
    for _ in range(6 if tier == 'quick' else 16):
        pre = gen_case(rng, 3, 5, rng.randrange(2, 10), tail=0).ops
        # keep only if the prefix has the standard universe shape (3 units, 5 streams at the front)
        base = ['stream'] * 5 + [l for l in pre if l.startswith('unit')][:3]
        if len(base) != 8: continue
        mid = [l for l in pre if not l.startswith('unit') and l != 'stream']
        for a in A:
            if rng.random() < (0.5 if tier == 'quick' else 1.0):
                yield Case(base + mid + [a], {'exhaustive': 'frontier'})

    n = max(1, b['cases'] // nworkers)
    for j in range(n):
        r = rng.random()
        if r < 0.12:
            yield gen_case_plain(rng, rng.randrange(3, 6), rng.randrange(5, 9), rng.randrange(3, 30))
        elif r < 0.45:
            yield gen_case(rng, 3, 5, rng.randrange(3, 12))
        elif r < 0.75:
            yield gen_case(rng, rng.randrange(3, 6), rng.randrange(5, 9), rng.randrange(10, 30))
        else:
            yield gen_case(rng, rng.randrange(4, 7), rng.randrange(6, 11), rng.randrange(45, 56))


def protect_prefix(case):
    return 0


def corpus():
    return [
        Case(['unit 2 1 M 1 1 M', 'unit 1 0 M 2 1 F', 'stream', 'set i 0 0 s2', 'set i 1 0 s2', 'pop i 1 0']),
        Case(['unit 2 1 M 1 1 M', 'stream', 'set i 0 0 s0', 'clr i 0']),
        Case(['unit 2 1 M 1 1 F', 'udisc 0 - s0 0']),
        Case(['unit 1 1 F 1 1 F', 'unit 2 1 M 2 0 M', 'unit 1 1 M 1 1 M', 'pipe_s_i_u s1 0 2', 'unit 2 1 F 1 1 F',
              'uins 3 s1 i1 -']),
        # placeholder objects carried from unit to unit (the three shapes of seeded change C18-4)
        Case(['stream'] * 4 + ['unit 2 1 L:s0 2 1 L:s1', 'unit 2 1 M 2 1 L:s2', 'unit 2 1 M 2 1 L:s3',
                               'pipe_u_u 0 1', 'pipe_u_u 0 2']),
        Case(['stream'] * 2 + ['unit 2 1 L:s0 2 1 L:s1', 'unit 2 1 M 2 1 M', 'tpo 1 0']),
        Case(['stream'] * 2 + ['unit 2 1 L:s0 2 1 L:s1', 'unit 2 1 M 2 1 M', 'rww 0 1']),
        Case(['stream'] * 4 + ['unit 2 1 L:s0 2 1 L:s1,s2', 'unit 2 1 L:s1 2 1 L:s3', 'unit 1 1 M 1 1 M',
                               'uins 2 s1 - -', 'rwn 2']),
        # a placeholder taken from another unit's list by item assignment, then popped, appended, disconnected
        Case(BASE + ['set i 0 0 m6', 'set o 1 0 m6', 'pop i 0 0', 'app i 1 m6', 'dsrc m6', 'disc m6']),
        # outside the preconditions: a placeholder assigned to a second port of its own list
        Case(BASE + ['set i 0 0 pi.0.1']),
    ]


def search(case, rng, budget_s):
    """Look for a property failure on the real code near a disagreement: random continuations."""
    import time
    t0 = time.time()
    from harness import core
    while time.time() - t0 < budget_s:
        U = Universe()
        ops = list(case.ops)
        ok = True
        for l in ops:
            try: U.apply(l)
            except Exception: ok = False; break
        if not ok: return None
        for _ in range(rng.randrange(1, 8)):
            l = gen_op(rng, U); ops.append(l)
            try: U.apply(l)
            except Exception: break
        c = Case(ops, {})
        res = run_impl(c)
        if res.failures:
            mo = core.run_driver(PID, [res.model_in])[0]
            if filter_failures(res, mo): return c
    return None
