"""
Generic machinery shared by every property check:

  * building the Lean project and auditing the property theorems
    (obligations / discharged / axioms),
  * running the compiled Lean line-protocol driver on a batch of cases,
  * comparing model answers with the implementation's answers,
  * delta-debugging a failing case,
  * verdict logic (VIOLATION / KNOWN-FINDING / no-failing-input-found),
  * writing the evidence file.

A property plugin (harness/props/cXX.py) supplies generators, the adapter that
drives the real code, the property oracle and signatures for failures.
"""
from __future__ import annotations
import json, os, re, subprocess, sys, time, random, hashlib, traceback, tempfile, shutil
from dataclasses import dataclass, field
from pathlib import Path

ROOT = Path(__file__).resolve().parent.parent          # /verif
LEAN = ROOT / 'lean'
DRIVER = LEAN / '.lake' / 'build' / 'bin' / 'driver'
DEFAULT_REPO = Path('/repo')
REPO = Path(os.environ.get('VERIF_REPO') or DEFAULT_REPO)
ALLOWED_AXIOMS = {'propext', 'Classical.choice', 'Quot.sound'}
FORBIDDEN = re.compile(r'\b(sorry|sorryAx|admit|native_decide|bv_decide|implemented_by|unsafe|opaque)\b|^\s*axiom\s|'
                       r'@\[\s*extern|^\s*(?:private\s+|protected\s+)?partial\s+def|maxHeartbeats\s+(?:0\b|[0-9]{7,})')
LOCK = LEAN / 'theorems.lock.json'


# --------------------------------------------------------------------------
# data
# --------------------------------------------------------------------------

@dataclass
class Case:
    """One generated input / operation history."""
    ops: list                     # protocol lines understood by adapter (and, by default, the driver)
    meta: dict = field(default_factory=dict)

    def to_json(self):
        return {'ops': self.ops, 'meta': self.meta}

    @staticmethod
    def from_json(d):
        return Case(list(d['ops']), dict(d.get('meta', {})))


@dataclass
class ImplResult:
    """What the adapter saw when it ran a case on the real code."""
    model_in: list                # lines to feed the Lean driver (usually == case.ops)
    outs: list                    # canonical answer per line, from the real code
    failures: list = field(default_factory=list)   # property-oracle failures: dicts(signature, op_index, what)
    tags: list = field(default_factory=list)       # branch / kind tags for the coverage histogram
    nontrivial: object = None     # hashable key if the case is non-trivial (for distinct counting)


@dataclass
class Failure:
    kind: str          # 'oracle' | 'disagree' | 'proof' | 'hypothesis'
    signature: str
    what: str
    case: Case | None = None
    detail: dict = field(default_factory=dict)


# --------------------------------------------------------------------------
# Lean side
# --------------------------------------------------------------------------

def run(cmd, cwd=None, timeout=None, env=None, input=None):
    return subprocess.run(cmd, cwd=cwd, timeout=timeout, env=env, input=input,
                          stdout=subprocess.PIPE, stderr=subprocess.STDOUT, text=True)


def strip_comments(src: str) -> str:
    # remove /- ... -/ (nested not handled deeply, good enough for our files) and -- comments
    out = []
    i, depth = 0, 0
    while i < len(src):
        if src.startswith('/-', i):
            depth += 1; i += 2; continue
        if src.startswith('-/', i) and depth:
            depth -= 1; i += 2; continue
        if depth == 0:
            if src.startswith('--', i):
                j = src.find('\n', i)
                i = len(src) if j < 0 else j
                continue
            out.append(src[i])
        elif src[i] == '\n':
            out.append('\n')
        i += 1
    return ''.join(out)


def lean_files_for(modules):
    """Source files of the given modules and everything of ours they import."""
    seen, todo = [], list(modules)
    while todo:
        m = todo.pop()
        if m in seen: continue
        f = LEAN / (m.replace('.', '/') + '.lean')
        if not f.exists(): continue
        seen.append(m)
        for line in f.read_text().splitlines():
            mm = re.match(r'\s*import\s+(ThermoVerif\.\S+)', line)
            if mm: todo.append(mm.group(1))
    return [LEAN / (m.replace('.', '/') + '.lean') for m in seen]


_DECL = re.compile(r'^(?:@\[[^\]]*\]\s*)?(?:(?:private|protected|noncomputable|partial|unsafe)\s+)*'
                   r'(def|structure|inductive|abbrev|class|instance|theorem|lemma|example|namespace|end|section|open|'
                   r'variable|universe|set_option|attribute|macro|syntax|notation|infix|infixl|infixr|prefix|postfix|import|'
                   r'deriving|mutual|termination_by|decreasing_by)\b')


def definitions_hash(modules) -> str:
    """Hash of every definition (def / structure / inductive / abbrev / class / instance / notation, their full text,
    comments and blank lines removed) in the property modules and everything of ours they import.  Theorems are
    recorded by statement in the lock; this covers what the statements are stated OVER, so that replacing the body
    of a predicate (say by `True`) cannot go unnoticed."""
    h = hashlib.sha256()
    for f in sorted(lean_files_for(modules)):
        keep, cur = [], None
        for line in strip_comments(f.read_text()).splitlines():
            m = _DECL.match(line)
            if m:
                kind = m.group(1)
                cur = kind if kind in ('def', 'structure', 'inductive', 'abbrev', 'class', 'instance', 'notation', 'infix',
                                       'infixl', 'infixr', 'prefix', 'postfix', 'macro', 'syntax', 'mutual') else None
            if cur is not None and line.strip():
                keep.append(re.sub(r'\s+', ' ', line.strip()))
        h.update(str(f.relative_to(LEAN)).encode()); h.update('\n'.join(keep).encode())
    return h.hexdigest()[:20]


def lean_obligations(pid: str, modules: list, tier: str, log) -> dict:
    """Build the property modules, audit their theorems.  Returns a dict with
    obligations, discharged, theorems{name: axioms|None}, problems[list of str]."""
    res = {'obligations': 0, 'discharged': 0, 'theorems': {}, 'problems': [], 'build_s': 0.0,
           'axioms_seen': []}
    t0 = time.time()
    r = run(['lake', 'build'] + modules + ['driver'], cwd=LEAN, timeout=3600)
    res['build_s'] = round(time.time() - t0, 1)
    if r.returncode != 0:
        errs = [l for l in r.stdout.splitlines() if 'error' in l][:10]
        res['problems'].append('lake build failed: ' + ' | '.join(errs))
        log(r.stdout[-3000:])
    # collect theorem names (with their namespace) from the property files
    names = []
    for m in modules:
        f = LEAN / (m.replace('.', '/') + '.lean')
        src = strip_comments(f.read_text())
        ns = []
        for line in src.splitlines():
            mm = re.match(r'\s*namespace\s+(\S+)', line)
            if mm: ns.append(mm.group(1)); continue
            mm = re.match(r'\s*end\s+(\S+)\s*$', line)
            if mm and ns and ns[-1].split('.')[-1] == mm.group(1).split('.')[-1]:
                ns.pop(); continue
            mm = re.match(r'\s*(?:@\[[^\]]*\]\s*)?(private\s+|protected\s+)?(?:theorem|lemma)\s+([^\s:({\[]+)', line)
            if mm and not (mm.group(1) or '').startswith('private'):
                # (private helper lemmas cannot be named from outside; they are covered transitively by the
                # axiom audit of the public theorems that use them and by the token scan)
                names.append('.'.join(ns + [mm.group(2)]))
    res['obligations'] = len(names)
    # forbidden tokens anywhere in our sources reachable from the property modules
    for f in lean_files_for(modules):
        src = strip_comments(f.read_text())
        for n, line in enumerate(src.splitlines(), 1):
            if FORBIDDEN.search(line):
                res['problems'].append(f'forbidden token in {f.relative_to(LEAN)}:{n}: {line.strip()[:80]}')
    if r.returncode == 0 and not names:
        res['problems'].append('no theorem found in ' + ', '.join(modules))
    res['statements'] = {}
    if r.returncode == 0 and names:
        audit = LEAN / 'Audit' / f'{pid}.lean'
        audit.parent.mkdir(exist_ok=True)
        head = [f'import {m}' for m in modules]
        body = []
        for n in names: body += [f'#print axioms {n}', f'#check @{n}']
        audit.write_text('\n'.join(head + body) + '\n')
        ra = run(['lake', 'env', 'lean', '--json', str(audit.relative_to(LEAN))], cwd=LEAN, timeout=1800)
        out = ra.stdout
        by_line = {}
        for l in out.splitlines():
            try:
                d = json.loads(l)
                by_line.setdefault(d['pos']['line'], []).append(d.get('data', ''))
            except Exception:
                continue
        for i, n in enumerate(names):
            la, lc = len(head) + 2 * i + 1, len(head) + 2 * i + 2
            msg = re.sub(r'\s+', ' ', ' '.join(by_line.get(la, [])))
            m1 = re.search(r"depends on axioms: \[([^\]]*)\]", msg)
            if m1:
                ax = [a.strip() for a in m1.group(1).split(',') if a.strip()]
            elif 'does not depend on any axioms' in msg:
                ax = []
            else:
                ax = None
            stmt = re.sub(r'\s+', ' ', ' '.join(by_line.get(lc, []))).strip()
            if stmt: res['statements'][n] = hashlib.sha256(stmt.encode()).hexdigest()[:16]
            res['theorems'][n] = ax
            if ax is None:
                res['problems'].append(f'theorem {n}: no #print axioms answer')
            else:
                bad = [a for a in ax if a not in ALLOWED_AXIOMS]
                if bad:
                    res['problems'].append(f'theorem {n} depends on non-standard axioms {bad}')
                else:
                    res['discharged'] += 1
                for a in ax:
                    if a not in res['axioms_seen']: res['axioms_seen'].append(a)
        if ra.returncode != 0 and not res['problems']:
            res['problems'].append('audit file failed: ' + out[-500:])
        # the lock: names and statements recorded when the theorems were last reviewed (tools/lock_theorems.py).  A
        # theorem that disappeared, or whose statement changed, is a broken obligation even if everything still builds.
        res['definitions_hash'] = definitions_hash(modules)
        if LOCK.exists():
            lock = dict(json.loads(LOCK.read_text()).get(pid, {}))
            dh = lock.pop('__definitions__', None)
            if dh is not None and dh != res['definitions_hash']:
                res['problems'].append('the definitions the theorems are stated over (Model/Lemmas/Props of this property) '
                                       'differ from the ones recorded in lean/theorems.lock.json')
            for n, h in lock.items():
                if n not in res['statements']:
                    res['problems'].append(f'theorem {n} is recorded in lean/theorems.lock.json but is no longer proved')
                elif res['statements'][n] != h:
                    res['problems'].append(f'the statement of theorem {n} differs from the one recorded in lean/theorems.lock.json')
            res['unlocked'] = [n for n in res['statements'] if n not in lock]
    if tier == 'thorough' and r.returncode == 0:
        t1 = time.time()
        rc = run(['lake', 'env', 'leanchecker'] + modules, cwd=LEAN, timeout=3600)
        res['leanchecker_s'] = round(time.time() - t1, 1)
        res['leanchecker_rc'] = rc.returncode
        if rc.returncode != 0:
            res['problems'].append('leanchecker rejected: ' + rc.stdout[-500:])
    return res


def run_driver(pid: str, batches: list) -> list:
    """batches: list of lists of lines.  Returns list of lists of answer lines.
    All batches go through one driver process, separated by `reset`."""
    lines = []
    for b in batches:
        lines.append('reset')
        lines.extend(b)
    if not DRIVER.exists():
        raise RuntimeError('driver executable missing; run setup (lake build)')
    for l in lines:
        if '\n' in l: raise ValueError('newline in protocol line')
    r = subprocess.run([str(DRIVER), pid], input='\n'.join(lines) + '\n', text=True,
                       stdout=subprocess.PIPE, stderr=subprocess.PIPE, timeout=3600)
    if r.returncode != 0:
        raise RuntimeError(f'driver failed rc={r.returncode}: {r.stderr[-2000:]}')
    out = r.stdout.split('\n')
    if out and out[-1] == '': out.pop()
    if len(out) != len(lines):
        raise RuntimeError(f'driver answered {len(out)} lines for {len(lines)}: {r.stderr[-500:]}')
    res, i = [], 0
    for b in batches:
        i += 1
        res.append(out[i:i + len(b)])
        i += len(b)
    return res


# --------------------------------------------------------------------------
# shrinking
# --------------------------------------------------------------------------

def ddmin(ops: list, fails, budget_s: float = 30.0, protect: int = 0) -> list:
    """Delta debugging on a list of ops; `fails(ops)` → bool."""
    t0 = time.time()
    n = 2
    cur = list(ops)
    while len(cur) - protect >= 2 and time.time() - t0 < budget_s:
        body = cur[protect:]
        chunk = max(1, len(body) // n)
        reduced = False
        for i in range(0, len(body), chunk):
            cand = cur[:protect] + body[:i] + body[i + chunk:]
            if len(cand) < len(cur) and fails(cand):
                cur = cand; n = max(n - 1, 2); reduced = True
                break
            if time.time() - t0 > budget_s: break
        if not reduced:
            if chunk == 1: break
            n = min(n * 2, len(body))
    return cur


# --------------------------------------------------------------------------
# known findings
# --------------------------------------------------------------------------

def load_known(pid):
    f = ROOT / 'known_findings.jsonl'
    known, fixed = [], []
    if f.exists():
        for line in f.read_text().splitlines():
            line = line.strip()
            if not line or line.startswith('#'): continue
            d = json.loads(line)
            if d.get('property') != pid: continue
            (known if d.get('status') == 'known' else fixed).append(d)
    return known, fixed


# --------------------------------------------------------------------------
# evidence
# --------------------------------------------------------------------------

def write_evidence(pid, tier, seed, lean, stats, assumptions, trusted, violations, wall, extra=None, official=True):
    ev = {
        'property_id': pid,
        'tier': tier,
        'seed': seed,
        'level': 'proof',
        'coverage': {
            'obligations': lean['obligations'],
            'discharged': lean['discharged'],
            'checker_cmd': f'cd lean && lake build {" ".join(stats.get("lean_modules", []))} && lake env lean Audit/{pid}.lean   (#print axioms per theorem'
                           + ('; lake env leanchecker' if tier == 'thorough' else '') + ')',
            'trusted_base': trusted + [f'axioms actually used: {sorted(lean["axioms_seen"])}'],
            'theorems': lean['theorems'],
            'theorem_statement_hashes': lean.get('statements', {}),
            'theorems_not_in_lock': lean.get('unlocked', []),
            'proof_problems': lean['problems'],
            'evaluations': stats['evaluations'],
            'distinct_nontrivial': stats['distinct_nontrivial'],
            'rule': stats['rule'],
            'samples': stats['samples'],
            'traces_validated_against_impl': stats.get('traces', 0),   # cases with at least one protocol line compared
            'model_lines_compared': stats['lines'],
            'disagreements': stats['disagreements'],
            'oracle_failures': stats['oracle_failures'],
            'histogram': stats['histogram'],
            'exhaustive': bool(stats.get('exhaustive', False)),
        },
        'assumptions': assumptions,
        'wall_s': round(wall, 2),
        'violations': violations,
    }
    if extra: ev['coverage'].update(extra)
    ev['repo'] = str(REPO)
    d = ROOT / ('evidence' if official else 'logs')
    d.mkdir(exist_ok=True)
    if not official: pid = pid + '.evidence'
    tmp = d / f'.{pid}.json.tmp'
    tmp.write_text(json.dumps(ev, indent=1, default=str))
    tmp.replace(d / f'{pid}.json')
    return ev


# --------------------------------------------------------------------------
# number transport
# --------------------------------------------------------------------------
import struct
from fractions import Fraction


def fbits(x: float) -> str:
    """float → protocol token `b<ieee754 bits as decimal>` (lossless)."""
    return 'b' + str(struct.unpack('<Q', struct.pack('<d', float(x)))[0])


def from_fbits(tok: str) -> float:
    assert tok.startswith('b'), tok
    return struct.unpack('<d', struct.pack('<Q', int(tok[1:])))[0]


def frac(x) -> str:
    """number → exact rational token `n` or `n/d` (Python floats are dyadic rationals)."""
    f = Fraction(x)
    return str(f.numerator) if f.denominator == 1 else f'{f.numerator}/{f.denominator}'


def parse_frac(tok: str) -> Fraction:
    return Fraction(tok)


def close(a: float, b: float, rtol=1e-9, atol=1e-12) -> bool:
    if a != a or b != b: return (a != a) and (b != b)
    if a == b: return True
    return abs(a - b) <= atol + rtol * max(abs(a), abs(b))


def dyadic(rng, kmax=4096, emax=6, nonneg=False):
    """a random dyadic rational k·2^-e as a float: every + − × on these is exact in binary64"""
    k = rng.randrange(0 if nonneg else -kmax, kmax + 1)
    return k / (1 << rng.randrange(0, emax + 1))
