"""
./check <PID> [--tier quick|thorough] [--seed N] [--replay FILE] [--jobs N]

Decides one property: Lean proof obligations + audit, correspondence between the
Lean model (compiled driver) and the real code, property oracle on the real
code, verdict, evidence.  Exit 0 = held on everything explored, 1 = violation
(VIOLATION line printed), 2 = the check itself could not run.
"""
from __future__ import annotations
import argparse, importlib, json, os, random, sys, time, traceback, warnings, hashlib, re
from concurrent.futures import ProcessPoolExecutor
from pathlib import Path

HERE = Path(__file__).resolve().parent
sys.path.insert(0, str(HERE.parent))
from harness import core
from harness.core import Case, ImplResult, Failure

_PLUGIN = None
TIME_SLACK = float(os.environ.get('VERIF_TIME_SLACK', '4'))
CASE_LIMIT = int(os.environ.get('VERIF_CASE_LIMIT', '300'))     # seconds one case may take before it counts as "did not return"


class CaseTimeout(BaseException):
    """not an Exception: the adapters' own `except Exception` handlers must not swallow it"""
    pass


def _alarm(signum, frame):
    raise CaseTimeout()


class time_limit:
    """raise CaseTimeout in the running code after `seconds`, and again every 5 s after that (in case the first one is
    caught by a bare `except:` in the code under test)"""
    def __init__(self, seconds): self.seconds = seconds
    def __enter__(self):
        import signal
        self.old = signal.signal(signal.SIGALRM, _alarm)
        signal.setitimer(signal.ITIMER_REAL, self.seconds, 5.0)
    def __exit__(self, *a):
        import signal
        signal.setitimer(signal.ITIMER_REAL, 0)
        signal.signal(signal.SIGALRM, self.old)
        return False


def no_return(what):
    return ImplResult(model_in=[], outs=[], failures=[
        {'signature': 'no-return', 'op_index': None,
         'what': f'the implementation did not return within {CASE_LIMIT} s {what}'}], tags=['no-return'])


def run_case(p, case):
    """run one case on the real code under a time limit; a case that does not return is a finding, not a hang"""
    try:
        with time_limit(CASE_LIMIT):
            return p.run_impl(case)
    except CaseTimeout:
        return no_return(f'on this input (ops: {case.ops[:6]}…)')


def load_plugin(pid):
    global _PLUGIN
    if _PLUGIN is None or _PLUGIN.PID != pid:
        warnings.simplefilter('ignore')
        repo = str(core.REPO)
        if repo not in sys.path: sys.path.insert(0, repo)
        _PLUGIN = importlib.import_module(f'harness.props.{pid.lower()}')
        if hasattr(_PLUGIN, 'setup'): _PLUGIN.setup()
    return _PLUGIN


def _worker(args):
    """Generate and run a share of the cases in a worker process."""
    pid, tier, seed, index, nworkers, seconds = args
    try:
        p = load_plugin(pid)
        if hasattr(p, 'warmup'): p.warmup()
        # the clock starts only now: importing thermosteam, building the chemicals and compiling the numba kernels
        # (cold cache for every VERIF_REPO copy) must not eat the budget of cases.  The deadline is a safety net
        # (TIME_SLACK x the nominal seconds), not the thing that decides how many cases run: a run cut short by it
        # is flagged `truncated` and reported.
        deadline = time.time() + seconds * TIME_SLACK
        rng = random.Random(seed * 1000003 + index)
        out = []
        truncated = False
        stuck = 0
        gen = iter(p.generate(rng, tier, index, nworkers))
        while True:
            try:
                with time_limit(CASE_LIMIT):
                    case = next(gen)
            except StopIteration:
                break
            except CaseTimeout:
                # adaptive generators run the real code: a regression that loops there is a finding too
                out.append((Case(['<the case generator, which drives the real code, did not return>'], {}),
                            no_return('while the next case was being generated (adaptive generator drives the real code)')))
                truncated = True
                break
            try:
                res = run_case(p, case)
            except Exception as e:   # adapter crashed on this case
                res = ImplResult(model_in=[], outs=[], failures=[], tags=['adapter-crash'])
                res.crash = ''.join(traceback.format_exception_only(type(e), e))[-500:] + traceback.format_exc()[-1500:]
            out.append((case, res))
            if 'no-return' in (res.tags or []):
                stuck += 1
                if stuck >= 3:
                    # three cases did not return: the finding is made, running on would only burn the time limit per case
                    truncated = True; break
            if time.time() > deadline:
                truncated = True; break
        return ('ok', out, truncated)
    except Exception:
        return ('worker-crash', traceback.format_exc())


def slug(s):
    return re.sub(r'[^A-Za-z0-9_.-]+', '_', s)[:80]


def classify(p, case, res, model_out):
    """Return list of Failure for one executed case."""
    fails = []
    if hasattr(p, 'filter_failures'):
        n0 = len(res.failures)
        own = [f for f in res.failures if f.get('signature') == 'no-return']      # the framework's, not the plugin's
        res.failures = [f for f in res.failures if f.get('signature') != 'no-return']
        res.failures = own + list(p.filter_failures(res, model_out))
        if len(res.failures) < n0:
            # oracle failures the plugin set aside (e.g. the model says the history left the stated preconditions):
            # counted, so the evidence shows how much was not judged
            res.tags = list(res.tags) + ['oracle-failures-set-aside-by-filter'] * 1
            res.filtered = n0 - len(res.failures)
    for f in res.failures:
        fails.append(Failure('oracle', f['signature'], f['what'], case, {'op_index': f.get('op_index')}))
    cmp = getattr(p, 'compare', lambda a, b: a == b)
    first = None
    for i, (a, b) in enumerate(zip(res.outs, model_out)):
        if not cmp(a, b):
            first = i; break
    if first is None and len(res.outs) != len(model_out):
        first = min(len(res.outs), len(model_out))
    if any(l == 'bad-op' and (i >= len(res.outs) or res.outs[i] != 'bad-op') for i, l in enumerate(model_out)):
        fails.append(Failure('malformed', 'malformed-protocol-line', 'the driver rejected a protocol line', case, {}))
        return fails
    if first is not None:
        sig = p.disagree_signature(case, res, first) if hasattr(p, 'disagree_signature') else \
            'disagree:' + (res.model_in[first].split(' ')[0] if first < len(res.model_in) else 'length')
        fails.append(Failure('disagree', sig,
                             f'model and implementation differ at line {first}: '
                             f'impl={res.outs[first] if first < len(res.outs) else None!r} '
                             f'model={model_out[first] if first < len(model_out) else None!r}',
                             case, {'first_diff': first}))
    return fails


def run_one(p, case):
    res = run_case(p, case)
    mo = core.run_driver(p.PID, [res.model_in])[0] if res.model_in else []
    return res, mo, classify(p, case, res, mo)


def main(argv=None):
    ap = argparse.ArgumentParser()
    ap.add_argument('pid')
    ap.add_argument('--tier', default=os.environ.get('VERIF_TIER', 'quick'), choices=['quick', 'thorough'])
    ap.add_argument('--seed', type=int, default=int(os.environ.get('VERIF_SEED', '20260927')))
    ap.add_argument('--replay')
    ap.add_argument('--jobs', type=int, default=int(os.environ.get('VERIF_JOBS', '0')))
    ap.add_argument('--no-lean', action='store_true', help='skip the proof step (development only)')
    a = ap.parse_args(argv)
    pid, tier, seed = a.pid.upper(), a.tier, a.seed
    t0 = time.time()
    logf = core.ROOT / 'logs'
    logf.mkdir(exist_ok=True)
    logfile = open(logf / f'{pid}.log', 'w')
    def log(*x):
        print(*x, file=logfile); logfile.flush()

    p = load_plugin(pid)

    # ---------------------------------------------------------------- replay
    if a.replay:
        d = json.loads(Path(a.replay).read_text())
        if 'case' not in d:
            # a broken proof obligation has no input to replay: re-check the obligations
            lean = core.lean_obligations(pid, p.LEAN_MODULES, 'quick', lambda *x: None)
            for prob in lean['problems']: print('FAILS [proof]', prob)
            if lean['problems']:
                print(f'VIOLATION property={pid} replay={a.replay} no-failing-input-found'); return 1
            print('the proof obligations check on the current tree'); return 0
        case = Case.from_json(d['case'])
        try:
            res, mo, fails = run_one(p, case)
        except Exception as e:
            print('FAILS [disagree] adapter-crash: the adapter could not run this case on the implementation: '
                  + ''.join(traceback.format_exception_only(type(e), e)).strip()[-400:])
            print(f'VIOLATION property={pid} replay={a.replay} no-failing-input-found')
            return 1
        for i, l in enumerate(res.model_in):
            print(f'  {l}\n     impl : {res.outs[i] if i < len(res.outs) else None}\n     model: {mo[i] if i < len(mo) else None}')
        if fails:
            for f in fails: print(f'FAILS [{f.kind}] {f.signature}: {f.what}')
            print(f'VIOLATION property={pid} replay={a.replay}')
            return 1
        print('replay passes on the current tree')
        return 0

    # ---------------------------------------------------------------- 1. proofs
    # translators (model regenerated from /repo's current source) run before the Lean build
    prebuild_problem = None
    if hasattr(p, 'prebuild'):
        try:
            p.prebuild()
        except Exception as e:
            prebuild_problem = f'translator failed: {type(e).__name__}: {e}'
            log(traceback.format_exc())
    if a.no_lean:
        lean = {'obligations': 0, 'discharged': 0, 'theorems': {}, 'problems': [], 'axioms_seen': []}
    else:
        lean = core.lean_obligations(pid, p.LEAN_MODULES, tier, log)
    log('lean:', json.dumps(lean, indent=1))
    # optional generated-model step (translator) is part of the plugin's prebuild
    failures: list[Failure] = []
    if prebuild_problem: lean['problems'].insert(0, prebuild_problem)
    for prob in lean['problems']:
        failures.append(Failure('proof', 'proof:' + slug(prob)[:60], prob))

    # ---------------------------------------------------------------- 2-4. correspondence + oracle
    # the number of shares the case space is cut into is fixed (so a seed means the same cases on any machine);
    # the number of processes working on them is bounded by the machine
    jobs = a.jobs or (16 if tier == 'thorough' else 8)
    procs = max(1, min(jobs, os.cpu_count() or 1))
    budget = p.budget(tier)
    seconds = budget.get('seconds', 120)
    executed = []        # (case, res)
    known, fixed = core.load_known(pid)
    pre_cases = list(p.corpus()) if hasattr(p, 'corpus') else []
    for k in known:
        if 'witness' in k:
            c = Case.from_json(k['witness']); c.meta['known'] = k['signature']
            pre_cases.append(c)
    stuck0 = 0
    for c in pre_cases:
        if stuck0 >= 3: break
        try:
            executed.append((c, run_case(p, c)))
            if 'no-return' in (executed[-1][1].tags or []): stuck0 += 1
        except Exception as e:
            r = ImplResult([], [], [], ['adapter-crash']); r.crash = traceback.format_exc()[-2000:]
            executed.append((c, r))
    crashed = []
    truncated_workers = 0
    if jobs == 1:
        r = _worker((pid, tier, seed, 0, 1, seconds))
        results = [r]
    else:
        hard = seconds * TIME_SLACK * max(1, -(-jobs // procs)) + 900
        ex = ProcessPoolExecutor(max_workers=procs)
        try:
            results = list(ex.map(_worker, [(pid, tier, seed, i, jobs, seconds) for i in range(jobs)], timeout=hard))
        except Exception as e:
            for pr in list(getattr(ex, '_processes', {}).values()):
                try: pr.kill()
                except Exception: pass
            ex.shutdown(wait=False, cancel_futures=True)
            print(f'harness error: the workers did not finish within {hard:.0f} s ({type(e).__name__}); inconclusive', file=sys.stderr)
            return 2
        ex.shutdown()
    for r in results:
        if isinstance(r, tuple) and r and r[0] == 'worker-crash':
            print('harness error: worker crashed\n' + r[1], file=sys.stderr)
            log(r[1]); return 2
        executed.extend(r[1])
        if r[2]: truncated_workers += 1
    # a case that did not return is run once more, alone and with twice the limit: under heavy load, or while numba
    # compiles on a cold cache, a slow case is not a looping one
    n_stuck = sum(1 for c, r in executed if 'no-return' in (r.tags or []))
    for idx, (c, r) in enumerate(executed):
        if n_stuck > 2: break        # many cases did not return: not a load artefact
        if any(f.get('signature') == 'no-return' for f in (r.failures or [])) and c.ops and not c.ops[0].startswith('<'):
            try:
                with time_limit(2 * CASE_LIMIT):
                    r2 = p.run_impl(c)
                r2.tags = list(r2.tags) + ['no-return:not-reproduced-on-second-run']
                executed[idx] = (c, r2)
            except CaseTimeout:
                pass
            except Exception:
                pass
    for c, r in executed:
        if getattr(r, 'crash', None):
            crashed.append((c, r.crash))
    if crashed:
        # the adapter could not drive the real code on these cases.  On the unchanged tree this does not happen; after a
        # change to thermosteam it means the implementation no longer behaves as the adapter (and the model) assume:
        # a broken correspondence, reported like one (with the case as replay), and the other cases are still judged.
        print(f'# adapter crashed on {len(crashed)} case(s); first:\n#   ' + crashed[0][1].strip().splitlines()[-1][:300])
        log(json.dumps(crashed[0][0].to_json())); log(crashed[0][1])
        for c, tb in crashed:
            last = tb.strip().splitlines()[-1] if tb.strip() else 'unknown'
            failures.append(Failure('disagree', 'adapter-crash:' + slug(last.split(':')[0])[:40],
                                    'the adapter could not run this case on the implementation: ' + last[:300], c, {}))
        executed = [(c, r) for c, r in executed if not getattr(r, 'crash', None)]

    model_outs = core.run_driver(pid, [r.model_in for _, r in executed])
    hist, nontrivial, lines, disagreements, oracle_failures = {}, set(), 0, 0, 0
    for (case, res), mo in zip(executed, model_outs):
        lines += len(res.model_in)
        if res.nontrivial is not None: nontrivial.add(res.nontrivial)
        fs = classify(p, case, res, mo)
        for t in res.tags: hist[t] = hist.get(t, 0) + 1
        for f in fs:
            if f.kind == 'disagree': disagreements += 1
            else: oracle_failures += 1
        failures.extend(fs)
    # model-side tags (driver answers may carry `tag=...`): count them too
    if hasattr(p, 'model_tags'):
        for mo in model_outs:
            for l in mo:
                for t in p.model_tags(l): hist['model:' + t] = hist.get('model:' + t, 0) + 1

    # ---------------------------------------------------------------- 5. verdict
    rdir0 = core.ROOT / 'replays'
    if rdir0.exists():
        for old in rdir0.glob(f'{pid}-*.json'): old.unlink()
    groups = {}
    for f in failures:
        groups.setdefault((f.kind, f.signature), []).append(f)
    known_sigs = {k['signature']: k for k in known}
    violations, printed = 0, []
    rdir = core.ROOT / 'replays'
    any_oracle_new = any(k == 'oracle' and s not in known_sigs for (k, s) in groups)
    rng = random.Random(seed ^ 0x5eed)
    for (kind, sig), fl in sorted(groups.items()):
        rate_note = None
        if kind == 'oracle' and sig in known_sigs:
            k = known_sigs[sig]
            ncases = len({id(f.case) for f in fl})
            line = f'KNOWN-FINDING: property={pid} {k["what"]} [{sig}] ({ncases} case(s) this run)'
            print(line); printed.append(line)
            # a listed finding is identified by its signature (an input class computed by the oracle) AND, where the
            # entry records one, by its base rate: many more hits than the recorded share of cases means something
            # else now fails under the same signature, which is reported as a violation of its own.
            mf = k.get('max_fraction')
            if mf is None or ncases <= max(k.get('min_count', 5), mf * len(executed)):
                continue
            rate_note = (f'listed finding [{sig}] hit {ncases} of {len(executed)} cases, above its recorded ceiling '
                         f'{mf:g} of the cases: a different failure is now hiding under this signature')
        rep = min((f for f in fl if f.case is not None), key=lambda f: len(f.case.ops), default=None)
        suffix = ''
        payload = {'property': pid, 'kind': kind, 'signature': sig + (':rate-exceeded' if rate_note else ''),
                   'what': rate_note or fl[0].what, 'seed': seed, 'tier': tier, 'count': len(fl)}
        if rate_note: payload['example_failure'] = fl[0].what
        if rep is not None:
            case = rep.case
            # shrink while the same (kind, signature) failure persists
            def still(ops, case=case):
                c = Case(list(ops), dict(case.meta))
                try:
                    _, _, fs = run_one(p, c)
                except Exception:
                    return False
                return any(f.kind == kind and f.signature == sig for f in fs)
            protect = getattr(p, 'protect_prefix', lambda c: 0)(case)
            try:
                small = core.ddmin(case.ops, still, budget_s=budget.get('shrink_s', 20), protect=protect)
            except Exception:
                small = case.ops
            case = Case(small, dict(case.meta))
            try:
                res, mo, fs = run_one(p, case)
                payload.update({'case': case.to_json(), 'impl_out': res.outs, 'model_out': mo,
                                'failures_on_replay': [f.what for f in fs]})
            except Exception as e:
                # the adapter cannot run this case on the implementation (that is what is being reported)
                payload.update({'case': case.to_json(), 'adapter_exception': ''.join(traceback.format_exception_only(type(e), e))[-600:]})
            if kind == 'disagree':
                # the correspondence no longer checks: search the real code for a property failure
                found = None
                if hasattr(p, 'search'):
                    found = p.search(case, rng, budget.get('search_s', 20))
                if found is not None:
                    payload['failing_input'] = found.to_json() if isinstance(found, Case) else found
                    payload['note'] = 'search found a property failure on the real code near the disagreement'
                else:
                    payload['broken'] = f'correspondence {pid}: Lean model (lean/ThermoVerif/Model, driver {pid}) vs implementation'
                    payload['theorems_no_longer_tied_to_code'] = list(lean['theorems'].keys())
                    if not any_oracle_new: suffix = ' no-failing-input-found'
        elif kind == 'proof':
            payload['broken'] = fl[0].what
            payload['theorems'] = lean['theorems']
            if not any_oracle_new: suffix = ' no-failing-input-found'
        rdir.mkdir(exist_ok=True)
        rp = rdir / f'{pid}-{slug(sig + ("_rate-exceeded" if rate_note else ""))}.json'
        rp.write_text(json.dumps(payload, indent=1, default=str))
        line = f'VIOLATION property={pid} replay={rp.relative_to(core.ROOT)}{suffix}'
        # keep the required shape: the words no-failing-input-found end the line
        print(f'# {kind} [{sig}] {(rate_note or fl[0].what)[:300]}')
        print(line); printed.append(line)
        violations += 1

    # ---------------------------------------------------------------- evidence
    samples = []
    for (case, res) in executed[:3] + executed[len(executed) // 2: len(executed) // 2 + 2]:
        samples.append({'ops': case.ops[:40], 'impl_answers': res.outs[:3]})
    stats = {
        'evaluations': len(executed), 'distinct_nontrivial': len(nontrivial), 'rule': p.RULE,
        'samples': samples, 'lines': lines, 'disagreements': disagreements,
        'oracle_failures': oracle_failures, 'histogram': dict(sorted(hist.items())),
        'lean_modules': p.LEAN_MODULES,
        'exhaustive': bool(getattr(p, 'EXHAUSTIVE', {}).get(tier, False)) and not truncated_workers,
        'traces': sum(1 for _, r in executed if r.model_in),
    }
    stale_known = []
    for c, r in executed:
        sig = c.meta.get('known') if isinstance(c.meta, dict) else None
        if sig and not any(f.kind == 'oracle' and f.signature == sig and f.case is c for f in failures):
            stale_known.append(sig)
    for sig in stale_known:
        print(f'# note: the witness of listed finding [{sig}] no longer fails with that signature on this tree '
              f'(the entry may be stale: repaired, or re-classified)')
    nominal = budget.get('cases')
    if truncated_workers:
        print(f'# note: the time budget ({seconds}s x {TIME_SLACK:g}) cut the run short in {truncated_workers} of {jobs} '
              f'worker(s): {len(executed)} cases executed' + (f' of about {nominal} nominal' if nominal else ''))
    extra = {'stale_known_witnesses': stale_known, 'truncated_by_time_budget': bool(truncated_workers), 'nominal_cases': nominal, 'verdict_lines': printed, 'known_findings_listed': [k['signature'] for k in known],
             'fixed_findings_listed': [k.get('commit', '') + ' ' + k.get('what', '') for k in fixed],
             'jobs': jobs}
    if hasattr(p, 'extra_evidence'): extra.update(p.extra_evidence(executed, model_outs))
    # evidence/<id>.json describes a complete run against /repo itself: development runs (--no-lean) and runs against
    # a modified copy (VERIF_REPO) write theirs under logs/ instead
    official = not a.no_lean and os.environ.get('VERIF_REPO') in (None, '', str(core.DEFAULT_REPO))
    core.write_evidence(pid, tier, seed, lean, stats, p.ASSUMPTIONS, p.TRUSTED, violations,
                        time.time() - t0, extra, official=official)
    print(f'{pid} [{tier}] obligations={lean["obligations"]} discharged={lean["discharged"]} '
          f'cases={len(executed)} lines={lines} nontrivial={len(nontrivial)} disagreements={disagreements} '
          f'oracle_failures={oracle_failures} violations={violations} wall={time.time() - t0:.1f}s')
    if violations: return 1
    if truncated_workers * 2 > jobs:
        print(f'harness error: the time budget cut the run short in {truncated_workers} of {jobs} shares of the case space '
              f'({len(executed)} cases executed); inconclusive (raise VERIF_TIME_SLACK on a slow machine)', file=sys.stderr)
        return 2
    return 0


if __name__ == '__main__':
    try:
        rc = main()
    except SystemExit:
        raise
    except Exception:
        traceback.print_exc()
        rc = 2
    sys.exit(rc)
