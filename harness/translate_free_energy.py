#!/venv/bin/python
"""
THE ONE TRANSLATOR (DESIGN.md §3.4):  thermosteam/free_energy.py  →  lean/ThermoVerif/Generated/FreeEnergy.lean

Parses the module with `ast` (the file is never imported or executed) and emits

  * one Lean definition per enthalpy/entropy functor, generic over a scalar type `α`
    (instantiated at ℝ by Props/C07.lean and at Float by Driver/C07.lean), over the
    structures `HeatCap α` (fields `I a b` = T_dependent_property_integral(a, b),
    `J a b` = T_dependent_property_integral_over_T(a, b)) and `Env α` (`log`, `R`);
  * the enumeration `Fn` of the functors, `Par` of their stored parameters, the stored
    parameter list of every functor in signature order (this is what `Functor.from_args`
    zips the data tuples of `Chemical._init_energies` with), whether the signature starts
    with `(T, P)` or only `(T)`;
  * `call`: evaluation of a functor from named, possibly missing (`None`) parameters;
  * the six `PhaseTPFunctorBuilder` tables (which functor serves which phase).

Accepted grammar of a functor body: optional docstring, then exactly one `return <expr>` with
  expr ::= expr (+|-|*|/) expr | -expr | <stored parameter> | T | P | R | log(expr)
         | <Cn parameter>.T_dependent_property_integral(expr, expr)
         | <Cn parameter>.T_dependent_property_integral_over_T(expr, expr)
Anything else (a numeric literal, a conditional, another call, a new top-level statement, a
functor that is neither translatable nor one of the `Excess_*` functors that need the equation of
state) raises TranslationError: the check then reports a broken proof obligation.

Out of scope, by name: `get_excess_energy` and the `Excess_*` functors / `Excess*` builders.  They are used
only when `include_excess_energies` is set (default False); they are listed in the generated file.

The output is a pure function of the source text (no timestamps); it is written only if it differs
from what is on disk.
"""
from __future__ import annotations
import ast, hashlib, sys
from pathlib import Path

INTEGRALS = {'T_dependent_property_integral': 'I', 'T_dependent_property_integral_over_T': 'J'}
BINOPS = {ast.Add: '+', ast.Sub: '-', ast.Mult: '*', ast.Div: '/'}
BUILDER_CLASSES = {'PhaseTPFunctorBuilder'}
LEAN_KEYWORDS = {'at', 'from', 'in', 'fun', 'let', 'do', 'end', 'open', 'with', 'then', 'else', 'if', 'by', 'have',
                 'show', 'match', 'where', 'Type', 'Prop', 'Sort', 'E', 'call', 'Fn', 'Par', 'Builder'}


class TranslationError(Exception):
    pass


def fail(node, msg):
    line = getattr(node, 'lineno', '?')
    raise TranslationError(f'free_energy.py:{line}: {msg}')


def ident(name, node=None):
    if not name.isidentifier() or not name.isascii() or name in LEAN_KEYWORDS:
        fail(node, f'identifier {name!r} cannot be used as a Lean name')
    return name


class Functor:
    def __init__(self, name, var, takesP, stored, lineno):
        self.name, self.var, self.takesP, self.stored, self.lineno = name, var, takesP, stored, lineno
        self.cn_params = []      # stored parameters used as heat-capacity objects
        self.used = []           # stored parameters used in the body, in signature order
        self.body = None         # Lean expression


def _expr(e, f: Functor, uses: set, cn_uses: set):
    """Python expression → Lean expression string (fully parenthesised)."""
    if isinstance(e, ast.BinOp):
        op = BINOPS.get(type(e.op))
        if op is None: fail(e, f'operator {type(e.op).__name__} is outside the accepted grammar')
        return f'({_expr(e.left, f, uses, cn_uses)} {op} {_expr(e.right, f, uses, cn_uses)})'
    if isinstance(e, ast.UnaryOp):
        if not isinstance(e.op, ast.USub): fail(e, f'unary operator {type(e.op).__name__} is outside the accepted grammar')
        return f'(-{_expr(e.operand, f, uses, cn_uses)})'
    if isinstance(e, ast.Name):
        n = e.id
        if n == 'T': return 'T'
        if n == 'P':
            if not f.takesP: fail(e, f'{f.name}: uses P but P is not in the signature')
            return 'P'
        if n == 'R': return 'E.R'
        if n in f.stored:
            uses.add(n)
            return n
        fail(e, f'{f.name}: name {n!r} is neither a parameter nor R')
    if isinstance(e, ast.Call):
        if e.keywords: fail(e, f'{f.name}: keyword arguments are outside the accepted grammar')
        fn = e.func
        if isinstance(fn, ast.Name) and fn.id == 'log':
            if len(e.args) != 1: fail(e, 'log takes one argument')
            return f'(E.log {_expr(e.args[0], f, uses, cn_uses)})'
        if isinstance(fn, ast.Attribute) and isinstance(fn.value, ast.Name) and fn.attr in INTEGRALS:
            obj = fn.value.id
            if obj not in f.stored: fail(e, f'{f.name}: {obj!r} is not a stored parameter')
            if len(e.args) != 2: fail(e, f'{fn.attr} takes two arguments')
            cn_uses.add(obj)
            a, b = (_expr(x, f, uses, cn_uses) for x in e.args)
            return f'({obj}.{INTEGRALS[fn.attr]} {a} {b})'
        fail(e, f'{f.name}: this call is outside the accepted grammar')
    if isinstance(e, ast.Constant):
        fail(e, f'{f.name}: literal {e.value!r} is outside the accepted grammar')
    fail(e, f'{f.name}: {type(e).__name__} is outside the accepted grammar')


def _functor_decorator(dec):
    """returns var string if `dec` is `@functor(var='..')`, else None"""
    if isinstance(dec, ast.Call) and isinstance(dec.func, ast.Name) and dec.func.id == 'functor':
        if dec.args: return None
        var = None
        for kw in dec.keywords:
            if kw.arg == 'var' and isinstance(kw.value, ast.Constant) and isinstance(kw.value.value, str):
                var = kw.value.value
            elif kw.arg != 'units':
                return None
        return var
    return None


def parse(src: str):
    tree = ast.parse(src)
    functors, builders, skipped = [], [], []
    names = set()
    for i, node in enumerate(tree.body):
        if isinstance(node, ast.Expr) and isinstance(node.value, ast.Constant) and isinstance(node.value.value, str):
            continue                                           # docstring
        if isinstance(node, (ast.Import, ast.ImportFrom)):
            if isinstance(node, ast.ImportFrom):
                for a in node.names:
                    # R and log must be the ones the model means
                    if (a.asname or a.name) == 'R' and not (node.module == 'constants' and node.level == 1 and a.name == 'R'):
                        fail(node, 'R is not thermosteam.constants.R')
                    if (a.asname or a.name) == 'log' and not (node.module == 'math' and node.level == 0 and a.name == 'log'):
                        fail(node, 'log is not math.log')
            continue
        if isinstance(node, ast.FunctionDef):
            if node.name == 'get_excess_energy' and not node.decorator_list:
                skipped.append(node.name); continue
            if len(node.decorator_list) != 1: fail(node, f'{node.name}: expected exactly one @functor decorator')
            var = _functor_decorator(node.decorator_list[0])
            if var is None: fail(node, f'{node.name}: decorator is not @functor(var=...)')
            a = node.args
            if a.vararg or a.kwarg or a.kwonlyargs or a.posonlyargs or a.defaults or a.kw_defaults:
                fail(node, f'{node.name}: only plain positional parameters are accepted')
            params = [x.arg for x in a.args]
            if node.name.startswith('Excess_'):
                skipped.append(node.name); names.add(node.name); continue
            if params[:2] == ['T', 'P']: takesP, stored = True, params[2:]
            elif params[:1] == ['T']: takesP, stored = False, params[1:]
            else: fail(node, f'{node.name}: signature must start with T or T, P')
            if len(set(params)) != len(params): fail(node, f'{node.name}: duplicate parameter')
            for p in stored:
                ident(p, node)
                if p in ('T', 'P', 'R', 'log'): fail(node, f'{node.name}: stored parameter named {p}')
            f = Functor(ident(node.name, node), var, takesP, stored, node.lineno)
            body = list(node.body)
            if body and isinstance(body[0], ast.Expr) and isinstance(body[0].value, ast.Constant) \
                    and isinstance(body[0].value.value, str):
                body = body[1:]
            if len(body) != 1 or not isinstance(body[0], ast.Return) or body[0].value is None:
                fail(node, f'{node.name}: body must be a single `return <expr>`')
            uses, cn_uses = set(), set()
            f.body = _expr(body[0].value, f, uses, cn_uses)
            both = (uses & cn_uses)
            if both: fail(node, f'{node.name}: {sorted(both)} used both as a number and as a heat-capacity object')
            f.cn_params = [p for p in stored if p in cn_uses]
            f.used = [p for p in stored if p in uses or p in cn_uses]
            if node.name in names: fail(node, f'{node.name}: defined twice')
            names.add(node.name)
            functors.append(f)
            continue
        if isinstance(node, ast.Assign):
            if len(node.targets) != 1 or not isinstance(node.targets[0], ast.Name):
                fail(node, 'unexpected assignment')
            tgt = node.targets[0].id
            v = node.value
            if not (isinstance(v, ast.Call) and isinstance(v.func, ast.Name) and v.func.id in BUILDER_CLASSES
                    and not v.keywords and len(v.args) == 4):
                fail(node, f'{tgt}: expected PhaseTPFunctorBuilder(var, s.functor, l.functor, g.functor)')
            if not (isinstance(v.args[0], ast.Constant) and isinstance(v.args[0].value, str)):
                fail(node, f'{tgt}: first argument must be the variable name')
            slg = []
            for x in v.args[1:]:
                if not (isinstance(x, ast.Attribute) and x.attr == 'functor' and isinstance(x.value, ast.Name)):
                    fail(node, f'{tgt}: arguments must be of the form <Functor>.functor')
                if x.value.id not in names: fail(node, f'{tgt}: {x.value.id} is not defined above')
                slg.append(x.value.id)
            if tgt.startswith('Excess'):
                skipped.append(tgt); continue
            known = {f.name for f in functors}
            for n in slg:
                if n not in known: fail(node, f'{tgt}: {n} is not a translated functor')
            builders.append((ident(tgt, node), v.args[0].value, slg))
            continue
        fail(node, f'top-level {type(node).__name__} is outside the accepted module shape')
    if not functors: raise TranslationError('no functor found')
    return functors, builders, skipped


def emit(src: str) -> str:
    functors, builders, skipped = parse(src)
    pars = []
    for f in functors:
        for p in f.stored:
            if p not in pars: pars.append(p)
    cn_pars = set()
    for f in functors: cn_pars |= set(f.cn_params)
    num_pars = set()
    for f in functors: num_pars |= (set(f.used) - set(f.cn_params))
    clash = cn_pars & num_pars
    if clash: raise TranslationError(f'parameters {sorted(clash)} are a heat capacity in one functor and a number in another')
    o = []
    w = o.append
    w('import ThermoVerif.Model.HeatCap')
    w('/-!')
    w('GENERATED by harness/translate_free_energy.py from thermosteam/free_energy.py — do not edit.')
    w('Regenerated at the start of every check run; the theorems of Props/C07.lean are about these definitions.')
    w(f'source sha256 (whole file): {hashlib.sha256(src.encode()).hexdigest()}')
    w(f'translated functors: {len(functors)}; builders: {len(builders)}')
    w('not translated (need the equation of state; used only with include_excess_energies=True): ' + ', '.join(skipped))
    w('-/')
    w('set_option linter.unusedVariables false')
    w('namespace ThermoVerif.FreeEnergy')
    w('')
    w('/-- the enthalpy / entropy functor classes of free_energy.py -/')
    w('inductive Fn where')
    for f in functors: w(f'  | {f.name}')
    w('  deriving DecidableEq, Repr')
    w('')
    w('/-- the stored parameters of those functors -/')
    w('inductive Par where')
    for p in pars: w(f'  | {p}')
    w('  deriving DecidableEq, Repr')
    w('')
    w('def Fn.all : List Fn := [' + ', '.join('.' + f.name for f in functors) + ']')
    w('')
    w('def Fn.name : Fn → String')
    for f in functors: w(f'  | .{f.name} => "{f.name}"')
    w('')
    w('def Par.name : Par → String')
    for p in pars: w(f'  | .{p} => "{p}"')
    w('')
    w('def Par.all : List Par := [' + ', '.join('.' + p for p in pars) + ']')
    w('')
    w('/-- is the parameter a heat-capacity object (its integral methods are called) -/')
    w('def Par.isCn : Par → Bool')
    for p in pars: w(f'  | .{p} => {"true" if p in cn_pars else "false"}')
    w('')
    w('/-- the `var` given to the decorator -/')
    w('def Fn.var : Fn → String')
    for f in functors: w(f'  | .{f.name} => "{f.var or ""}"')
    w('')
    w('/-- does the signature start with `(T, P)` (a TPFunctor) or with `(T)` only (a TFunctor) -/')
    w('def Fn.takesP : Fn → Bool')
    for f in functors: w(f'  | .{f.name} => {"true" if f.takesP else "false"}')
    w('')
    w('/-- stored parameters in signature order: `Functor.from_args(data)` is `dict(zip(params, data))` -/')
    w('def Fn.params : Fn → List Par')
    for f in functors: w(f'  | .{f.name} => [' + ', '.join('.' + p for p in f.stored) + ']')
    w('')
    w('section')
    w('variable {α : Type} [Add α] [Sub α] [Mul α] [Div α] [Neg α]')
    w('')
    for f in functors:
        args = ['(E : Env α)', '(T : α)'] + (['(P : α)'] if f.takesP else [])
        for p in f.used:
            args.append(f'({p} : HeatCap α)' if p in f.cn_params else f'({p} : α)')
        w(f'/-- free_energy.py:{f.lineno} `{f.name}({", ".join(["T"] + (["P"] if f.takesP else []) + f.stored)})` -/')
        w(f'def {f.name} {" ".join(args)} : α :=')
        w(f'  {f.body}')
        w('')
    w('/-- Evaluate functor `f` at `(T, P)` with its stored parameters looked up by name; `none` when a parameter the')
    w('body uses is missing or `None` (Python raises `TypeError` there). -/')
    w('def call (E : Env α) (f : Fn) (T P : α) (cn : Par → Option (HeatCap α)) (v : Par → Option α) : Option α :=')
    w('  match f with')
    for f in functors:
        w(f'  | .{f.name} =>')
        for p in f.used:
            src_ = 'cn' if p in f.cn_params else 'v'
            w(f'    ({src_} .{p}).bind fun {p} =>')
        app = ' '.join([f.name, 'E', 'T'] + (['P'] if f.takesP else []) + f.used)
        w(f'    some ({app})')
    w('')
    w('end')
    w('')
    w('/-- the `PhaseTPFunctorBuilder` tables -/')
    w('inductive Builder where')
    for b, _, _ in builders: w(f'  | {b}')
    w('  deriving DecidableEq, Repr')
    w('')
    w('def Builder.all : List Builder := [' + ', '.join('.' + b for b, _, _ in builders) + ']')
    w('')
    w('def Builder.name : Builder → String')
    for b, _, _ in builders: w(f'  | .{b} => "{b}"')
    w('')
    w('def Builder.var : Builder → String')
    for b, var, _ in builders: w(f'  | .{b} => "{var}"')
    w('')
    for k, ph in enumerate('slg'):
        w(f'def Builder.{ph} : Builder → Fn')
        for b, _, slg in builders: w(f'  | .{b} => .{slg[k]}')
        w('')
    w('end ThermoVerif.FreeEnergy')
    return '\n'.join(o) + '\n'


def source_path(repo) -> Path:
    return Path(repo) / 'thermosteam' / 'free_energy.py'


def translate(repo, out_path) -> bool:
    """Translate `<repo>/thermosteam/free_energy.py`; returns True when the output file changed."""
    src = source_path(repo).read_text(encoding='utf-8')
    text = emit(src)
    out_path = Path(out_path)
    out_path.parent.mkdir(parents=True, exist_ok=True)
    if out_path.exists() and out_path.read_text(encoding='utf-8') == text:
        return False
    tmp = out_path.with_suffix('.lean.tmp')
    tmp.write_text(text, encoding='utf-8')
    tmp.replace(out_path)
    return True


if __name__ == '__main__':
    here = Path(__file__).resolve().parent.parent
    sys.path.insert(0, str(here))
    from harness import core
    out = core.LEAN / 'ThermoVerif' / 'Generated' / 'FreeEnergy.lean'
    try:
        changed = translate(core.REPO, out)
    except TranslationError as e:
        print('translation failed:', e, file=sys.stderr); sys.exit(1)
    print(f'{out}: {"rewritten" if changed else "unchanged"}')
